\* MC.tla
SPECIFICATION Spec
CONSTANTS
  Inst = {"A"}
  H = 4
  TTL = 12
  CHK = 10
  JIT <- JIT_S
  BO <- BO_S
  LAT = 1
  UT = 20
  VI = 2
  GRACE = 100
  MaxNow = 14
  NR = 1
  Prio <- AllZero
  TK <- AllFalse
  HN <- AllZero
  CONN <- AllFalse
  MaxStarts = 2
  MaxStops = 0
  MaxFaults = 0
  MaxOutside = 2
  MaxUnhealthy = 0
  MaxConnEv = 0
  MaxApi = 1
  StopKinds <- SK_Del
  OutKinds <- OK_All
  Faults <- NoFaults
  Dev <- NoDev
CONSTRAINT NoOverflow
CHECK_DEADLOCK FALSE
INVARIANTS NoViolation C03_Bound C08_Mirror C09_Final C18_Consistent C19_Ctx
