INIT Init
NEXT Next
CONSTANT MaxWrap = 2
CHECK_DEADLOCK FALSE
