\* MC.tla
SPECIFICATION Spec
CONSTANTS
  Inst = {"A", "B"}
  H = 4
  TTL = 12
  CHK = 10
  JIT <- JIT_S
  BO <- BO_S
  LAT = 2
  UT = 20
  VI = 0
  GRACE = 100
  MaxNow = 40
  NR = 2
  Prio <- AllZero
  TK <- AllFalse
  HN <- AllZero
  CONN <- AllFalse
  MaxStarts = 4
  MaxStops = 2
  MaxFaults = 0
  MaxOutside = 0
  MaxUnhealthy = 0
  MaxConnEv = 0
  MaxApi = 0
  StopKinds <- SK_All
  OutKinds <- OK_Del
  Faults <- NoFaults
  Dev <- NoDev
CONSTRAINT NoOverflow
CHECK_DEADLOCK FALSE
INVARIANTS SimRunning
