INIT Init
NEXT Next
CONSTANTS MaxOuts = 5
  MaxBreakerLen = 4
CHECK_DEADLOCK FALSE
