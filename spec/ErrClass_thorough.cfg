INIT Init
NEXT Next
CONSTANT MaxWrap = 3
CHECK_DEADLOCK FALSE
