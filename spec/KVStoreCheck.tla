---------------------------- MODULE KVStoreCheck ----------------------------
(* Judges what the real adapter (against an embedded nats-server) and the harness' reference store answered for each
   generated sequence: IOEnv.IN rows [impl, ops: [.. expected .., got_ok, got_rev, got_val, got_err], watchers (expected),
   got_watchers]. Also rows of kind "watchstable" (one channel, no goroutine growth). *)
EXTENDS KVStore, Json, IOUtils, SequencesExt
Results == ndJsonDeserialize(IOEnv.IN)

OpBad(o) == \/ o.got_ok # o.ok
            \/ (o.ok /\ o.op \in {"create", "update"} /\ o.got_rev # o.rev)
            \/ (o.ok /\ o.op = "get" /\ (o.got_rev # o.rev \/ o.got_val # o.rval))
            \/ (~o.ok /\ o.got_err # o.err)
Clause(o) == IF o.op = "create" THEN "create_succeeds_iff_no_live_value"
             ELSE IF o.op = "update" THEN "update_succeeds_iff_revision_is_latest"
             ELSE IF o.op = "get" THEN "get_returns_latest_live_value_or_error" ELSE "operation_result"
SameEvs(a, b) == Len(a) = Len(b) /\ \A i \in 1..Len(a) : a[i].kind = b[i].kind /\ a[i].val = b[i].val /\ a[i].rev = b[i].rev
Verdict(r) ==
  IF r.kind = "watchstable"
  THEN (IF ~r.same_channel THEN {"updates_returns_a_new_channel_per_call"} ELSE {}) \cup
       (IF r.goroutine_growth > 4 THEN {"watch_accumulates_goroutines"} ELSE {}) \cup
       (IF r.received # r.expected THEN {"watch_events_lost_or_duplicated"} ELSE {})
  ELSE LET pre == IF r.impl = "refstore" THEN "CONFORMANCE_refstore_" ELSE "" IN
       {pre \o Clause(r.ops[i]) : i \in {j \in 1..Len(r.ops) : OpBad(r.ops[j])}} \cup
       (IF Len(r.watchers) # Len(r.got_watchers) \/ \E n \in 1..Len(r.watchers) : ~SameEvs(r.watchers[n], r.got_watchers[n])
        THEN {pre \o "watch_delivers_every_change_once_in_order"} ELSE {})
ASSUME LET rs == Results
           bad == SelectSeq([k \in 1..Len(rs) |-> [row |-> k, clauses |-> SetToSeq(Verdict(rs[k])), r |-> rs[k]]],
                            LAMBDA b : b.clauses # <<>>)
       IN /\ PrintT(<<"results", Len(rs), "bad", Len(bad)>>)
          /\ ndJsonSerialize(IOEnv.OUT, bad)
=============================================================================
