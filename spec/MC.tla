--------------------------------- MODULE MC ---------------------------------
(* Constant definitions for the TLC configurations of Election.tla (MC_*.cfg). *)
EXTENDS Election

JIT_C == {1}                              \* regime C (coarse): unit 100 ms
BO_C == <<1, 1, 2>>
JIT_S == {1, 2}                           \* regime S: unit 50 ms: jitter 10..100 ms -> 1..2
BO_S == <<1, 2, 4>>                       \* back-off 50/100/200 ms
SK_All == {"stop", "ctxdel"}
SK_Stop == {"stop"}
SK_Del == {"ctxdel"}
SK_Abort == {"ctxabort", "stop"}
SK_Every == {"stop", "ctx", "ctxdel", "ctxabort"}
OK_Del == {"del"}
OK_Put == {"other", "as", "malformed", "empty"}
OK_All == {"del", "other", "as", "malformed", "empty"}
Sym == Permutations(Inst)
NoFaults == {}
F_Fail == {"fail"}
F_FailWatch == {"failwatch"}
F_Lose == {"loseack"}
F_Part == {"partition"}
F_Drop == {"drop"}
F_All == {"fail", "loseack", "partition", "drop"}
NoDev == {}
AllZero == [i \in Inst |-> 0]
AllFalse == [i \in Inst |-> FALSE]
AllTrue == [i \in Inst |-> TRUE]
\* priorities / flags for the takeover family: A low and not enabled, B high and enabled, C like A but enabled
Prio_AB == [i \in Inst |-> IF i = "A" THEN 1 ELSE IF i = "B" THEN 2 ELSE 1]
TK_B == [i \in Inst |-> i # "A"]
Prio_Tie == [i \in Inst |-> 1]
HN_A(n) == [i \in Inst |-> IF i = "A" THEN n ELSE 0]
HN2 == HN_A(2)
HN3 == HN_A(3)
CONN_A == [i \in Inst |-> i = "A"]

\* vacuity probes: expected to be VIOLATED (they show that the ghosts of the timed invariants are exercised)
Probe_C10 == \A j \in Inst : (el[j].preSince >= 0 /\ CanPreempt(j)) => now <= el[j].preSince + 4
Probe_C10b == \A j \in Inst : ~CanPreempt(j)
Probe_C10c == \A j \in Inst : el[j].preSince < 0
Probe_C03 == \A i \in Inst : (el[i].leader /\ el[i].lostAt >= 0) => now <= el[i].lostAt + 1
Probe_C06 == g.vacSince >= 0 => now <= g.vacSince + 2

\* one definition per deviation, for "Dev <- D_<name>" in generated configurations
D_attempt_while_leading == {"attempt_while_leading"}
D_double_promotion == {"double_promotion"}
D_start_failure_demotes_leader == {"start_failure_demotes_leader"}
D_hb_no_recheck_after_health == {"hb_no_recheck_after_health"}
D_watch_acts_after_cancel == {"watch_acts_after_cancel"}
D_validate_without_leader_gate == {"validate_without_leader_gate"}
D_validate_fast_path == {"validate_fast_path"}
D_closed_suppresses_grace == {"closed_suppresses_grace"}
D_verify_sets_connected_after_newer_disconnect == {"verify_sets_connected_after_newer_disconnect"}
D_verification_failure_without_demotion == {"verification_failure_without_demotion"}
D_takeover_continues_after_stop == {"takeover_continues_after_stop"}
D_claim_after_stop == {"claim_after_stop"}
D_conflict_transient == {"conflict_transient"}
D_delete_without_owner_check == {"delete_without_owner_check"}
D_exhaustion_demotes_leader == {"exhaustion_demotes_leader"}
D_follower_bookkeeping_overwrites_leader == {"follower_bookkeeping_overwrites_leader"}
D_four_failures == {"four_failures"}
D_health_gt == {"health_gt"}
D_health_not_reset == {"health_not_reset"}
D_promote_ctx_is_election_ctx == {"promote_ctx_is_election_ctx"}
D_stale_event_demotes == {"stale_event_demotes"}
D_stop_keeps_claim == {"stop_keeps_claim"}
D_takeover_ge == {"takeover_ge"}
D_validation_first_error_demotes == {"validation_first_error_demotes"}
D_validation_failure_notifies_unconditionally == {"validation_failure_notifies_unconditionally"}
D_disconnect_ignored_while_follower == {"disconnect_ignored_while_follower"}
D_stale_observation_regresses == {"stale_observation_regresses"}
D_watch_failure_gives_up == {"watch_failure_gives_up"}
D_aborted_stop_skips_ondemote == {"aborted_stop_skips_ondemote"}
D_watcher_demotion_without_callback == {"watcher_demotion_without_callback"}
=============================================================================
