\* KVStoreGen.tla
SPECIFICATION KVSpec
CONSTANT MaxSeq = 0
CHECK_DEADLOCK FALSE
