INIT Init
NEXT Next
CONSTANTS MaxOuts = 4
  MaxBreakerLen = 3
CHECK_DEADLOCK FALSE
