------------------------------ MODULE Election ------------------------------
(***************************************************************************)
(* Explicit specification of ali-assar/NATS-Leader-Election as implemented *)
(* (leader/kv_election.go, heartbeat.go, watcher.go, fencing.go,            *)
(* connection.go) over the NATS JetStream KV contract (KVStore.tla).        *)
(*                                                                         *)
(* The specification is structured like the implementation: one thread      *)
(* record per goroutine kind of an instance, one action per step between    *)
(* two blocking points, every store operation split into issue / apply-or-  *)
(* fail / respond so that "operation in flight" windows exist, critical     *)
(* sections under e.mu as atomic operators (BecomeLeader, BecomeFollower,   *)
(* StopBegin), discrete time with urgent timers.                            *)
(*                                                                         *)
(* action  <->  code (pinned tree incl. the fix: commits)                   *)
(*   Start                 kv_election.go Start                             *)
(*   AcqIssue/AcqCreateResp/TkGetResp/TkUpdateResp   attemptAcquire,        *)
(*                         attemptPriorityTakeover                          *)
(*   BecomeLeader/BecomeFollower (operators)   becomeLeader/becomeFollower  *)
(*   RoundSpawn (operator) / RoundTimer / exhaustion  attemptAcquireWithRetry*)
(*   HbTick/HbHealth/HbUpdateResp/HbTimeout    heartbeat.go heartbeatLoop   *)
(*   ValTick/ValGetResp                        fencing.go validationLoop    *)
(*   WatchOpenResp/WatchEvent/CheckTick/CheckResp/WatchExit  watcher.go     *)
(*   ValCancelled          validateToken under a cancelled term context     *)
(*   StopBegin/StopWaitDone/StopAbort/StopOwnsResp/StopDeleteResp/          *)
(*   StopFinish            Stop, StopWithContext (incl. the error return    *)
(*                         on a cancelled context: life "halted")           *)
(*   ApiValidate*          ValidateToken, ValidateTokenOrDemote             *)
(*   Disconnect/GraceFire/Reconnect/Verify*/Closed   connection.go          *)
(*   StoreApply/StoreFail/LoseAck/Expire(implicit)/Deliver/DropEvent/       *)
(*   OutsidePut (well-formed foreign payload, payload forged under an       *)
(*   instance's id, unparsable bytes, zero-length value)/OutsideDelete/     *)
(*   Partition/Heal        environment                                      *)
(* ghosts (g.viol, lostAt, vacSince, pdue, preSince, calm, quiet) carry     *)
(* what the properties of Props.tla need: C01 C02 C03 C04 C05 C06 C07 C08   *)
(* C10 C11 C12 are checked as invariants over them (end of the module).     *)
(*   Advance               time                                             *)
(*                                                                         *)
(* Dev (a set of deviation names) switches on behaviour the code had before *)
(* a fix: commit or might get through a regression; Dev = {} is the current *)
(* tree.  TLC run with one deviation produces the shortest schedule that    *)
(* makes the corresponding property fail; those schedules are replayed on   *)
(* the real code by the harness.                                            *)
(***************************************************************************)
EXTENDS Props, Sequences, TLC

CONSTANTS
  Inst,        \* instance ids (strings)
  H, TTL,      \* heartbeat interval, bucket TTL (time units)
  CHK,         \* periodic check of the watch loop (500 ms)
  JIT,         \* set of possible initial jitters of a round
  BO,          \* back-off sequence <<b1,b2,b3>>
  LAT,         \* responsive store: every operation is applied and answered within LAT of its issue
  UT,          \* heartbeat update time-out  max(H/2, 1 s)
  VI,          \* validation interval; 0 switches the validation loop off
  GRACE,       \* disconnect grace period
  MaxNow,      \* time horizon
  NR,          \* acquisition round slots per instance
  Prio, TK,    \* [Inst -> Nat], [Inst -> BOOLEAN]
  HN,          \* [Inst -> Nat] health threshold, 0 = no health checker
  CONN,        \* [Inst -> BOOLEAN] connection monitoring
  MaxStarts, MaxStops, MaxFaults, MaxOutside, MaxUnhealthy, MaxConnEv, MaxApi,
  StopKinds,   \* subset of {"stop", "ctx", "ctxdel", "ctxabort"}
  OutKinds,    \* outside interference: subset of {"del", "other", "as", "malformed", "empty"}
  Faults,      \* subset of {"fail", "failwatch" (Watch calls only), "loseack", "partition", "drop"}
  Dev          \* deviations switched on

ASSUME /\ TTL >= 3 * H /\ NR \in 1..3

None == "none"
Rounds == 1..NR
RN(k) == IF k = 1 THEN "r1" ELSE IF k = 2 THEN "r2" ELSE "r3"
AcqSlots == {"acq", "tko"} \cup {RN(k) : k \in Rounds}
Slots == AcqSlots \cup {"hb", "val", "w", "stp", "api", "vfy"}
Tracked == {"acq", "tko", "hb", "val", "w", "vfy"}      \* goroutines the WaitGroup waits for

VARIABLES
  now,     \* time
  rec,     \* the group's record: [kind: "absent"|"tomb"|"val", id, tok, prio, rev, at, writer]
  seq,     \* bucket-wide sequence
  ntok,    \* tokens handed out so far (uuid: always fresh)
  wq,      \* wq[i]: undelivered events of i's current watcher
  el,      \* el[i]: the election object's fields
  th,      \* th[i][slot]: goroutines
  orph,    \* operations whose caller gave up waiting (abandoned update, get under a cancelled context)
  g        \* ghost: budgets, history needed by the properties, violated clauses

vars == <<now, rec, seq, ntok, wq, el, th, orph, g>>

Absent == [kind |-> "absent", id |-> None, tok |-> 0, prio |-> 0, rev |-> 0, at |-> 0, writer |-> None, cls |-> "payload"]
Readable == rec.cls = "payload"                                   \* json.Unmarshal into the payload struct succeeds
Live == rec.kind = "val" /\ now < rec.at + TTL
Cur == IF rec.kind # "absent" /\ now < rec.at + TTL THEN rec ELSE Absent      \* tombstones expire too
LastSeq == Cur.rev

NoOp == [kind |-> None, ph |-> None, exp |-> 0, tok |-> 0, at |-> 0, ok |-> FALSE, res |-> 0,
         err |-> None, rid |-> None, rtok |-> 0, rprio |-> 0, lost |-> FALSE, own |-> FALSE,
         rcls |-> "payload"]  \* class of the bytes a read returned: "malformed" and "empty" cannot be parsed
Idle == [pc |-> "idle", due |-> 0, op |-> NoOp, gen |-> 0, term |-> 0, n |-> 0, aux |-> 0]

El0 == [life |-> "init", alive |-> FALSE, ctxnil |-> TRUE, gen |-> 0,
        leader |-> FALSE, state |-> "INIT", lid |-> None, tok |-> 0, rev |-> 0,
        wrun |-> FALSE, hcnt |-> 0, term |-> 0, termAlive |-> FALSE,
        cb |-> 0,          \* promotions minus demotions (callbacks)
        ctxOpen |-> {},    \* terms whose promotion context is not cancelled
        part |-> FALSE, conn |-> "connected", grace |-> -1, wasLeader |-> FALSE,
        stopRet |-> FALSE,
        lostAt |-> -1,     \* ghost: when the record of this claiming instance stopped being its own
        lastDisc |-> -1, pdue |-> -1,   \* ghost: latest disconnect notification; grace deadline the property demands
        preSince |-> -1]                \* ghost: since when this instance could preempt a lower-priority leader (C10)

G0 == [starts |-> 0, stops |-> 0, faults |-> 0, outside |-> 0, unhealthy |-> 0, connev |-> 0, api |-> 0,
       tokens |-> {}, viol |-> {}, overflow |-> FALSE,
       calm |-> TRUE,     \* C02 assumptions hold so far
       quiet |-> TRUE,    \* C07 assumptions hold so far
       vacSince |-> -1,   \* ghost: since when the record is vacant while a ready candidate exists (C06)
       lastFault |-> -1]  \* ghost: when the latest fault was injected

Init ==
  /\ now = 0 /\ rec = Absent /\ seq = 0 /\ ntok = 0 /\ orph = {}
  /\ wq = [i \in Inst |-> <<>>]
  /\ el = [i \in Inst |-> El0]
  /\ th = [i \in Inst |-> [s \in Slots |-> Idle]]
  /\ g = [G0 EXCEPT !.calm = \A i \in Inst : ~TK[i], !.quiet = \A i \in Inst : ~TK[i] /\ HN[i] = 0]

T(i, s) == th[i][s]
Dv(d) == d \in Dev

\* ---------------------------------------------------------------------------
\* contexts: a goroutine started under generation gen (and term) sees its context done when ...
CtxDone(i, t)  == ~el[i].alive \/ t.gen # el[i].gen
TermDone(i, t) == CtxDone(i, t) \/ ~el[i].termAlive \/ t.term # el[i].term
Stopped(i) == el[i].ctxnil \/ ~el[i].alive                       \* stoppedLocked()

MkOp(kind, exp, tok) == [NoOp EXCEPT !.kind = kind, !.ph = "iss", !.exp = exp, !.tok = tok, !.at = now]
Viol(gg, c) == [gg EXCEPT !.viol = @ \cup {c}]

\* ---------------------------------------------------------------------------
\* the two critical sections.  Both take and return the pair <<el[i], th[i], gg>> as a record
\* so that actions can compose them with their own updates.
St(e, t, gg, w) == [e |-> e, t |-> t, g |-> gg, w |-> w]

\* becomeLeader(token, rev)
BecomeLeader(i, s, tok, rev) ==
  LET e == s.e IN
  IF (e.ctxnil \/ ~e.alive) /\ ~Dv("claim_after_stop") THEN s
  ELSE IF e.leader /\ ~Dv("double_promotion") THEN s          \* a term is running: ignored
  ELSE
  LET term == e.term + 1
      e2 == [e EXCEPT !.hcnt = IF Dv("health_not_reset") THEN @ ELSE 0,
                      !.leader = TRUE, !.lid = i, !.tok = tok, !.rev = rev, !.state = "LEADER",
                      !.term = term, !.termAlive = TRUE,
                      !.cb = @ + 1, !.ctxOpen = (IF Dv("promote_ctx_is_election_ctx") THEN @ ELSE {}) \cup {term},
                      !.lostAt = -1, !.pdue = -1]
      hb  == [Idle EXCEPT !.pc = "wait", !.due = now + H, !.gen = e.gen, !.term = term]
      val == IF VI > 0 THEN [Idle EXCEPT !.pc = "wait", !.due = now + VI, !.gen = e.gen, !.term = term] ELSE Idle
      \* a loop of an older term that is still alive is replaced only if it is idle; otherwise the
      \* model keeps the old one (it exits at its next step) and the new loop is lost: flagged
      t2 == [s.t EXCEPT !["hb"] = IF @.pc = "idle" \/ TRUE THEN hb ELSE @,
                        !["val"] = val]
      gg == IF e.leader THEN Viol(s.g, "C08_second_promotion_without_demotion") ELSE s.g
      gg2 == IF e.cb # 0 THEN Viol(gg, "C08_promotion_without_preceding_demotion") ELSE gg
  IN St(e2, t2, [gg2 EXCEPT !.vacSince = -1], s.w)

\* becomeFollower(): returns in .was whether a term ended
BecomeFollower(i, s) ==
  LET e == s.e IN
  IF (e.ctxnil \/ ~e.alive) /\ ~Dv("claim_after_stop") THEN [s EXCEPT !.w = s.w] @@ [was |-> FALSE]
  ELSE
  LET e2 == [e EXCEPT !.leader = FALSE, !.state = "FOLLOWER", !.termAlive = FALSE, !.lostAt = -1, !.pdue = -1,
                      !.ctxOpen = IF Dv("promote_ctx_is_election_ctx") THEN @ ELSE {},
                      !.wrun = TRUE]
      spawn == ~e.ctxnil /\ ~e.wrun
      t2 == IF spawn THEN [s.t EXCEPT !["w"] = [Idle EXCEPT !.pc = "open", !.op = MkOp("watch", 0, 0), !.gen = e.gen]]
            ELSE s.t
      gg == IF spawn /\ s.t["w"].pc # "idle" THEN [s.g EXCEPT !.overflow = TRUE] ELSE s.g
  IN St(e2, t2, gg, IF spawn THEN <<>> ELSE s.w) @@ [was |-> e.leader]

\* OnDemote runs exactly when a term ended
Demoted(s, was) ==
  IF ~was THEN s
  ELSE LET gg == IF s.e.cb # 1 THEN Viol(s.g, "C08_demotion_without_matching_promotion") ELSE s.g
           \* C07: in fault-free operation (g.quiet) no term ends except by the instance's own stop
           g2 == IF gg.quiet THEN Viol(gg, "C07_demoted_in_fault_free_operation") ELSE gg
       IN [s EXCEPT !.e.cb = @ - 1, !.g = g2]

DemoteBy(i, s) == LET r == BecomeFollower(i, s) IN Demoted([e |-> r.e, t |-> r.t, g |-> r.g, w |-> r.w], r.was)

Cur3(i) == St(el[i], th[i], g, wq[i])
Commit(i, s) == /\ el' = [el EXCEPT ![i] = s.e] /\ th' = [th EXCEPT ![i] = s.t] /\ g' = s.g /\ wq' = [wq EXCEPT ![i] = s.w]

\* ---------------------------------------------------------------------------
\* API: Start
Start(i) ==
  /\ el[i].life \in {"init", "stopped", "halted"} /\ g.starts < MaxStarts     \* halted: e.ctx is cancelled, not nil: Start accepts
  /\ th[i]["stp"].pc = "idle"
  /\ th[i]["acq"].pc = "idle"
  /\ LET e == [el[i] EXCEPT !.life = "running", !.alive = TRUE, !.ctxnil = FALSE, !.gen = @ + 1,
                            !.state = "CANDIDATE", !.stopRet = FALSE]
         t == [th[i] EXCEPT !["acq"] = [Idle EXCEPT !.pc = "create", !.op = MkOp("create", 0, ntok + 1), !.gen = e.gen]]
     IN /\ el' = [el EXCEPT ![i] = e] /\ th' = [th EXCEPT ![i] = t]
  /\ ntok' = ntok + 1
  /\ g' = [g EXCEPT !.starts = @ + 1]
  /\ UNCHANGED <<now, rec, seq, wq, orph>>

\* ---------------------------------------------------------------------------
\* store: applying an issued operation of thread s of instance i
Notify(ev) == [j \in Inst |-> IF el[j].wrun \/ th[j]["w"].pc \in {"loop", "chk", "open"} THEN Append(wq[j], ev) ELSE wq[j]]

Legit(i, kind, tok) ==
  LET p == [live |-> Live, id |-> rec.id, tok |-> rec.tok, prio |-> rec.prio, cls |-> rec.cls,
            rev |-> rec.rev, writer |-> rec.writer, at |-> rec.at]
      m == [kind |-> kind, id |-> i, tok |-> tok, key |-> "g"]
  IN LegitMutation(m, p, i, TK[i], Prio[i], th[i]["stp"].pc # "idle")

ApplyRes(i, o) ==
  \* result of applying operation o of instance i on the current store: <<ok, rev, err, newrec, event>>
  CASE o.kind = "create" ->
         IF Live THEN [ok |-> FALSE, res |-> 0, err |-> "conflict", mut |-> FALSE]
         ELSE [ok |-> TRUE, res |-> seq + 1, err |-> None, mut |-> TRUE]
    [] o.kind = "update" ->
         IF LastSeq = o.exp THEN [ok |-> TRUE, res |-> seq + 1, err |-> None, mut |-> TRUE]
         ELSE [ok |-> FALSE, res |-> 0, err |-> "conflict", mut |-> FALSE]
    [] o.kind = "get" ->
         IF Live THEN [ok |-> TRUE, res |-> rec.rev, err |-> None, mut |-> FALSE]
         ELSE [ok |-> FALSE, res |-> 0, err |-> "notfound", mut |-> FALSE]
    [] o.kind = "delete" -> [ok |-> TRUE, res |-> seq + 1, err |-> None, mut |-> TRUE]
    [] o.kind = "watch" -> [ok |-> TRUE, res |-> 0, err |-> None, mut |-> FALSE]

\* a follower that can reach the store
\* (whether or not its watch loop is alive: an instance that lost its watch loop to a transient failure is still a candidate)
ReadyCand(j) == el[j].life = "running" /\ ~el[j].part /\ ~el[j].leader /\ el[j].state = "FOLLOWER" /\ th[j]["acq"].pc = "idle"

\* effect on rec/seq/wq/g/el of a successful mutation by i
Mutate(i, o) ==
  LET del == o.kind = "delete"
      nrec == IF del THEN [Absent EXCEPT !.kind = "tomb", !.rev = seq + 1, !.at = now, !.writer = i]
              ELSE [kind |-> "val", id |-> i, tok |-> o.tok, prio |-> Prio[i], rev |-> seq + 1, at |-> now, writer |-> i, cls |-> "payload"]
      ev == IF del THEN [k |-> "del", id |-> None, prio |-> 0, rev |-> seq + 1]
            ELSE [k |-> "val", id |-> i, prio |-> Prio[i], rev |-> seq + 1]
      acquisition == ~del /\ ~(Live /\ rec.writer = i /\ rec.tok = o.tok)
      \* known finding (known_findings.txt): the owner check of StopWithContext{DeleteKey} and the Delete are two
      \* operations; a replacement in between is deleted
      g1 == IF ~Legit(i, o.kind, o.tok)
            THEN Viol(g, IF del /\ th[i]["stp"].pc = "del" /\ ~Dv("delete_without_owner_check")
                         THEN "KNOWN_C01_delete_after_owner_check" ELSE "C01_illegitimate_" \o o.kind)
            ELSE g
      g2 == IF acquisition /\ ~FreshToken(o.tok, g.tokens) THEN Viol(g1, "C05_token_not_fresh") ELSE g1
      g3 == IF ~del THEN [g2 EXCEPT !.tokens = @ \cup {o.tok}] ELSE g2
      \* a leader loses its record (C02/C07): somebody else's write or a delete while it claims
      lost == {j \in Inst : el[j].leader /\ Live /\ rec.id = j /\ rec.tok = el[j].tok /\ (del \/ j # i)}
      g4 == IF lost # {} /\ g.calm THEN Viol(g3, "C02_record_lost_while_claiming") ELSE g3
      g5 == IF del /\ Live /\ (\E j \in Inst : j # i /\ ReadyCand(j)) THEN [g4 EXCEPT !.vacSince = now] ELSE g4
  IN /\ rec' = nrec /\ seq' = seq + 1 /\ wq' = Notify(ev) /\ g' = g5
     /\ el' = [j \in Inst |-> IF j \in lost THEN [el[j] EXCEPT !.lostAt = now] ELSE el[j]]

\* the notification a watcher receives for the current version of the record
EvOfRec == IF Cur.kind = "tomb" \/ rec.cls = "empty" THEN [k |-> "del", id |-> None, prio |-> 0, rev |-> rec.rev]   \* nil entry / zero-length value
           ELSE IF rec.cls = "malformed" THEN [k |-> "bad", id |-> None, prio |-> 0, rev |-> rec.rev]
           ELSE [k |-> "val", id |-> rec.id, prio |-> rec.prio, rev |-> rec.rev]

\* the store applies the operation of thread s
StoreApply(i, s) ==
  LET t == T(i, s) o == t.op r == ApplyRes(i, o) IN
  /\ o.ph = "iss" /\ ~el[i].part
  /\ th' = [th EXCEPT ![i][s].op = [o EXCEPT !.ph = "app", !.ok = r.ok, !.res = r.res, !.err = r.err,
                                             !.rid = IF o.kind = "get" /\ r.ok /\ Readable THEN rec.id ELSE None,
                                             !.rtok = IF o.kind = "get" /\ r.ok /\ Readable THEN rec.tok ELSE 0,
                                             !.rprio = IF o.kind = "get" /\ r.ok /\ Readable THEN rec.prio ELSE 0,
                                             !.rcls = IF o.kind = "get" /\ r.ok THEN rec.cls ELSE "payload",
                                             !.own = @ \/ (o.kind = "get" /\ r.ok /\ el[i].leader /\ rec.id = i /\ rec.tok = el[i].tok)]]
  /\ IF r.mut THEN Mutate(i, o)
     ELSE IF o.kind = "watch"
          THEN /\ wq' = [wq EXCEPT ![i] = (IF Cur.kind \in {"val", "tomb"} THEN <<EvOfRec>> ELSE <<>>)
                                          \o <<[k |-> "nil", id |-> None, prio |-> 0, rev |-> 0]>>]
               /\ UNCHANGED <<rec, seq, g, el>>
          ELSE UNCHANGED <<rec, seq, wq, g, el>>
  /\ UNCHANGED <<now, ntok, orph>>

\* an abandoned operation is applied later (its answer goes nowhere)
OrphApply(o) ==
  /\ o \in orph /\ ~el[o.i].part
  /\ orph' = orph \ {o}
  /\ LET r == ApplyRes(o.i, o) IN
     IF r.mut THEN Mutate(o.i, o) ELSE UNCHANGED <<rec, seq, wq, g, el>>
  /\ UNCHANGED <<now, ntok, th>>
OrphDrop(o) == o \in orph /\ orph' = orph \ {o} /\ UNCHANGED <<now, rec, seq, ntok, wq, el, th, g>>

\* faults
StoreFail(i, s, cls) ==
  LET o == T(i, s).op IN
  /\ ("fail" \in Faults \/ ("failwatch" \in Faults /\ s = "w" /\ T(i, s).pc = "open")) /\ g.faults < MaxFaults
  /\ o.ph = "iss"
  /\ th' = [th EXCEPT ![i][s].op = [o EXCEPT !.ph = "app", !.ok = FALSE, !.err = cls]]
  /\ g' = [g EXCEPT !.faults = @ + 1, !.calm = FALSE, !.quiet = FALSE, !.lastFault = now]
  /\ UNCHANGED <<now, rec, seq, ntok, wq, el, orph>>

LoseAck(i, s) ==
  LET o == T(i, s).op IN
  /\ "loseack" \in Faults /\ g.faults < MaxFaults
  /\ o.ph = "app" /\ o.ok /\ o.kind \in {"create", "update", "delete"}
  /\ th' = [th EXCEPT ![i][s].op = [o EXCEPT !.ok = FALSE, !.err = "timeout", !.res = 0, !.lost = TRUE]]
  /\ g' = [g EXCEPT !.faults = @ + 1, !.calm = FALSE, !.quiet = FALSE, !.lastFault = now]
  /\ UNCHANGED <<now, rec, seq, ntok, wq, el, orph>>

Partition(i) ==
  /\ "partition" \in Faults /\ g.faults < MaxFaults /\ ~el[i].part /\ el[i].life = "running"
  /\ el' = [el EXCEPT ![i].part = TRUE]
  /\ g' = [g EXCEPT !.faults = @ + 1, !.calm = FALSE, !.quiet = FALSE, !.lastFault = now]
  /\ UNCHANGED <<now, rec, seq, ntok, wq, th, orph>>
Heal(i) ==
  /\ el[i].part /\ el' = [el EXCEPT ![i].part = FALSE]
  /\ UNCHANGED <<now, rec, seq, ntok, wq, th, orph, g>>
\* a partitioned client's request times out (never applied)
PartTimeout(i, s) ==
  LET o == T(i, s).op IN
  /\ el[i].part /\ o.ph = "iss"
  /\ th' = [th EXCEPT ![i][s].op = [o EXCEPT !.ph = "app", !.ok = FALSE, !.err = "timeout"]]
  /\ UNCHANGED <<now, rec, seq, ntok, wq, el, orph, g>>

DropEvent(i) ==
  /\ "drop" \in Faults /\ g.faults < MaxFaults /\ wq[i] # <<>>
  /\ wq' = [wq EXCEPT ![i] = Tail(@)]
  /\ g' = [g EXCEPT !.faults = @ + 1, !.calm = FALSE, !.quiet = FALSE, !.lastFault = now]
  /\ UNCHANGED <<now, rec, seq, ntok, el, th, orph>>

\* an outside party (operator, other software, an instance of another deployment) deletes or rewrites the record
OutsideLoses(j) == el[j].leader /\ Live /\ rec.id = j /\ rec.tok = el[j].tok
OutsideDelete ==
  /\ "del" \in OutKinds /\ g.outside < MaxOutside /\ Live
  /\ rec' = [Absent EXCEPT !.kind = "tomb", !.rev = seq + 1, !.at = now, !.writer = "outside"]
  /\ seq' = seq + 1
  /\ wq' = Notify([k |-> "del", id |-> None, prio |-> 0, rev |-> seq + 1])
  /\ g' = [g EXCEPT !.outside = @ + 1, !.calm = FALSE, !.quiet = FALSE,
                    !.vacSince = IF \E j \in Inst : ReadyCand(j) THEN now ELSE @]
  /\ el' = [j \in Inst |-> IF OutsideLoses(j) THEN [el[j] EXCEPT !.lostAt = now] ELSE el[j]]
  /\ UNCHANGED <<now, ntok, th, orph>>

\* kind "other": a well-formed payload of an unknown party; "as": a well-formed payload naming instance id with a token
\* that instance never had; "malformed": bytes no reader can parse; "empty": a zero-length value
OutsidePut(kind, id) ==
  /\ kind \in OutKinds \ {"del"} /\ g.outside < MaxOutside
  /\ (kind = "as") = (id \in Inst)
  /\ LET cls == IF kind \in {"other", "as"} THEN "payload" ELSE kind
         nrec == [kind |-> "val", id |-> IF cls = "payload" THEN id ELSE None, tok |-> 0, prio |-> 0, rev |-> seq + 1, at |-> now,
                  writer |-> "outside", cls |-> cls]
         ev == IF cls = "empty" THEN [k |-> "del", id |-> None, prio |-> 0, rev |-> seq + 1]
               ELSE IF cls = "malformed" THEN [k |-> "bad", id |-> None, prio |-> 0, rev |-> seq + 1]
               ELSE [k |-> "val", id |-> id, prio |-> 0, rev |-> seq + 1]
     IN /\ rec' = nrec /\ seq' = seq + 1 /\ wq' = Notify(ev)
  /\ g' = [g EXCEPT !.outside = @ + 1, !.calm = FALSE, !.quiet = FALSE, !.vacSince = -1]
  /\ el' = [j \in Inst |-> IF OutsideLoses(j) THEN [el[j] EXCEPT !.lostAt = now] ELSE el[j]]
  /\ UNCHANGED <<now, ntok, th, orph>>

\* ---------------------------------------------------------------------------
\* attemptAcquire, shared by the start goroutine ("acq"), takeover attempts ("tko") and rounds
AcqFailed(i, s, st) ==
  \* attemptAcquire returned an error in thread s; st is the state record to continue from
  LET t == st.t[s] IN
  IF s = "acq" THEN IF st.e.leader /\ ~Dv("start_failure_demotes_leader") THEN [st EXCEPT !.t[s] = Idle]
                    ELSE LET r == BecomeFollower(i, st) IN [e |-> r.e, t |-> [r.t EXCEPT ![s] = Idle], g |-> r.g, w |-> r.w]
  ELSE IF s = "tko" THEN [st EXCEPT !.t[s] = Idle]
  ELSE \* round
    IF t.n = 3
    THEN IF st.e.leader /\ ~Dv("exhaustion_demotes_leader") THEN [st EXCEPT !.t[s] = Idle]
         ELSE LET r == BecomeFollower(i, st) IN [e |-> r.e, t |-> [r.t EXCEPT ![s] = Idle], g |-> r.g, w |-> r.w]
    ELSE [st EXCEPT !.t[s] = [t EXCEPT !.pc = "bo", !.due = now + BO[t.n + 1], !.op = NoOp, !.n = t.n + 1]]

AcqCreateResp(i, s) ==
  LET t == T(i, s) o == t.op IN
  /\ s \in AcqSlots /\ t.pc = "create" /\ o.ph = "app"
  /\ IF o.ok
     THEN Commit(i, LET st == BecomeLeader(i, Cur3(i), o.tok, o.res) IN [st EXCEPT !.t[s] = Idle]) /\ UNCHANGED ntok
     ELSE IF TK[i] /\ Prio[i] > 0 /\ (~Stopped(i) \/ Dv("takeover_continues_after_stop"))
          THEN /\ th' = [th EXCEPT ![i][s] = [t EXCEPT !.pc = "tkget", !.op = MkOp("get", 0, o.tok)]]
               /\ UNCHANGED <<el, g, wq, ntok>>
          ELSE Commit(i, AcqFailed(i, s, Cur3(i))) /\ UNCHANGED ntok
  /\ UNCHANGED <<now, rec, seq, orph>>

\* observeLeader: only a non-leader records what it reads
\* ... and ignores an observation older than the one it has (late notifications next to fresher reads)
Observe(e, id, rev) == IF e.leader /\ ~Dv("follower_bookkeeping_overwrites_leader") THEN e
                       ELSE IF rev < e.rev /\ ~Dv("stale_observation_regresses") THEN e
                       ELSE [e EXCEPT !.lid = id, !.rev = rev]

TkGetResp(i, s) ==
  LET t == T(i, s) o == t.op IN
  /\ s \in AcqSlots /\ t.pc = "tkget" /\ o.ph = "app"
  /\ IF ~o.ok \/ o.rcls # "payload" THEN Commit(i, AcqFailed(i, s, Cur3(i)))     \* also: "current leadership record is not readable"
     ELSE IF (IF Dv("takeover_ge") THEN Prio[i] < o.rprio ELSE Prio[i] <= o.rprio)
          THEN Commit(i, AcqFailed(i, s, [Cur3(i) EXCEPT !.e = Observe(@, o.rid, o.res)]))
          ELSE IF Stopped(i) /\ ~Dv("takeover_continues_after_stop")
               THEN Commit(i, AcqFailed(i, s, Cur3(i)))                        \* a stopped election does not go on to the Update
               ELSE /\ th' = [th EXCEPT ![i][s] = [t EXCEPT !.pc = "tkupd", !.op = MkOp("update", o.res, o.tok)]]
                    /\ UNCHANGED <<el, g, wq>>
  /\ UNCHANGED <<now, rec, seq, ntok, orph>>

TkUpdateResp(i, s) ==
  LET t == T(i, s) o == t.op IN
  /\ s \in AcqSlots /\ t.pc = "tkupd" /\ o.ph = "app"
  /\ IF o.ok
     THEN Commit(i, LET st == BecomeLeader(i, Cur3(i), o.tok, o.res) IN [st EXCEPT !.t[s] = Idle])
     ELSE Commit(i, AcqFailed(i, s, Cur3(i)))
  /\ UNCHANGED <<now, rec, seq, ntok, orph>>

\* rounds: attemptAcquireWithRetry
SpawnRound(i, st) ==
  \* go attemptAcquireWithRetry(ctx): a free round slot gets a jitter timer
  IF \E k \in Rounds : st.t[RN(k)].pc = "idle"
  THEN LET k == CHOOSE k \in Rounds : st.t[RN(k)].pc = "idle" IN
       {[st EXCEPT !.t[RN(k)] = [Idle EXCEPT !.pc = "jit", !.due = now + j, !.gen = st.e.gen]] : j \in JIT}
  ELSE {[st EXCEPT !.g.overflow = TRUE]}

RoundTimer(i, k) ==
  LET s == RN(k) t == T(i, s) IN
  /\ t.pc \in {"jit", "bo"} /\ t.due <= now
  /\ IF CtxDone(i, t) \/ (el[i].leader /\ ~Dv("attempt_while_leading"))
     THEN /\ th' = [th EXCEPT ![i][s] = Idle] /\ UNCHANGED ntok
     ELSE /\ th' = [th EXCEPT ![i][s] = [t EXCEPT !.pc = "create", !.op = MkOp("create", 0, ntok + 1)]]
          /\ ntok' = ntok + 1
  /\ UNCHANGED <<now, rec, seq, wq, el, orph, g>>

\* ---------------------------------------------------------------------------
\* heartbeat loop
Permanent(err) == err \in (IF Dv("conflict_transient") THEN {"notfound", "permission"} ELSE {"conflict", "notfound", "permission"})

HbFailure(i, st, err) ==
  \* one failed attempt: permanent -> demote now; transient -> third in a row demotes
  LET t == st.t["hb"] IN
  IF Permanent(err) \/ t.n + 1 >= (IF Dv("four_failures") THEN 4 ELSE 3)
  THEN LET r == DemoteBy(i, st) IN [r EXCEPT !.t["hb"] = Idle]
  ELSE LET \* C03: a refresh attempt that reached the store after the record was lost (definite answer) or the third failure in a
           \* row must end the term
           gg == IF (st.e.lostAt >= 0 /\ err \in {"conflict", "notfound"}) \/ t.n + 1 >= ToleratedFailures
                 THEN Viol(st.g, "C03_not_demoted_at_completion_of_heartbeat") ELSE st.g
       IN [st EXCEPT !.t["hb"] = [t EXCEPT !.pc = "wait", !.due = @ + H, !.op = NoOp, !.n = t.n + 1], !.g = gg]

HbTick(i) ==
  LET t == T(i, "hb") IN
  /\ t.pc = "wait" /\ t.due <= now
  /\ IF TermDone(i, t) \/ ~el[i].leader
     THEN th' = [th EXCEPT ![i]["hb"] = Idle] /\ UNCHANGED <<el, g, wq>>
     ELSE IF HN[i] > 0
          THEN th' = [th EXCEPT ![i]["hb"].pc = "health"] /\ UNCHANGED <<el, g, wq>>
          ELSE th' = [th EXCEPT ![i]["hb"] = [t EXCEPT !.pc = "upd", !.op = MkOp("update", el[i].rev, el[i].tok)]]
               /\ UNCHANGED <<el, g, wq>>
  /\ UNCHANGED <<now, rec, seq, ntok, orph>>

HbHealth(i, healthy) ==
  LET t == T(i, "hb") e == el[i] IN
  /\ t.pc = "health"
  /\ (~healthy => g.unhealthy < MaxUnhealthy)
  /\ IF healthy
     THEN IF (TermDone(i, t) \/ ~e.leader) /\ ~Dv("hb_no_recheck_after_health")
          THEN th' = [th EXCEPT ![i]["hb"] = Idle] /\ UNCHANGED <<el, g, wq>>     \* the check took long: the term is over
          ELSE /\ el' = [el EXCEPT ![i].hcnt = 0]
               /\ th' = [th EXCEPT ![i]["hb"] = [t EXCEPT !.pc = "upd", !.op = MkOp("update", e.rev, e.tok)]]
               /\ UNCHANGED <<g, wq>>
     ELSE LET cnt == e.hcnt + 1
              st0 == [Cur3(i) EXCEPT !.e.hcnt = cnt, !.g.unhealthy = @ + 1, !.g.calm = FALSE, !.g.quiet = FALSE]
          IN IF (IF Dv("health_gt") THEN cnt > HN[i] ELSE cnt >= HN[i])
             THEN Commit(i, LET r == DemoteBy(i, st0) IN
                            [r EXCEPT !.t["hb"] = Idle,
                                      !.g = IF cnt # HN[i] THEN Viol(@, "C12_health_demotion_at_wrong_count") ELSE @])
             ELSE Commit(i, [st0 EXCEPT !.t["hb"] = [t EXCEPT !.pc = "wait", !.due = @ + H]])
  /\ UNCHANGED <<now, rec, seq, ntok, orph>>

HbUpdateResp(i) ==
  LET t == T(i, "hb") o == t.op IN
  /\ t.pc = "upd" /\ o.ph = "app"
  /\ IF TermDone(i, t)
     THEN th' = [th EXCEPT ![i]["hb"] = Idle] /\ UNCHANGED <<el, g, wq>>
     ELSE IF o.ok
          THEN /\ el' = [el EXCEPT ![i].rev = o.res]
               /\ th' = [th EXCEPT ![i]["hb"] = [t EXCEPT !.pc = "wait", !.due = @ + H, !.op = NoOp, !.n = 0]]
               /\ UNCHANGED <<g, wq>>
          ELSE Commit(i, HbFailure(i, Cur3(i), o.err))
  /\ UNCHANGED <<now, rec, seq, ntok, orph>>

\* time.After(updateTimeout): the loop moves on, the Update goroutine stays behind
HbTimeout(i) ==
  LET t == T(i, "hb") o == t.op IN
  /\ t.pc = "upd" /\ o.at + UT <= now
  /\ orph' = IF o.ph = "iss" THEN orph \cup {[o EXCEPT !.ph = "iss"] @@ [i |-> i]} ELSE orph
  /\ IF TermDone(i, t)
     THEN th' = [th EXCEPT ![i]["hb"] = Idle] /\ UNCHANGED <<el, g, wq>>
     ELSE Commit(i, HbFailure(i, Cur3(i), "timeout"))
  /\ UNCHANGED <<now, rec, seq, ntok>>

\* ctx.Done() while waiting for the Update
HbCancelled(i) ==
  LET t == T(i, "hb") o == t.op IN
  /\ t.pc \in {"upd", "health"} /\ TermDone(i, t)
  /\ orph' = IF t.pc = "upd" /\ o.ph = "iss" THEN orph \cup {o @@ [i |-> i]} ELSE orph
  /\ th' = [th EXCEPT ![i]["hb"] = Idle]
  /\ UNCHANGED <<now, rec, seq, ntok, wq, el, g>>

\* ---------------------------------------------------------------------------
\* validation loop
ValTick(i) ==
  LET t == T(i, "val") IN
  /\ t.pc = "wait" /\ t.due <= now
  /\ IF TermDone(i, t) \/ ~el[i].leader
     THEN th' = [th EXCEPT ![i]["val"] = Idle]
     ELSE th' = [th EXCEPT ![i]["val"] = [t EXCEPT !.pc = "get", !.op = MkOp("get", 0, el[i].tok)]]
  /\ UNCHANGED <<now, rec, seq, ntok, wq, el, orph, g>>

ValGetResp(i) ==
  LET t == T(i, "val") o == t.op IN
  /\ t.pc = "get" /\ o.ph = "app" /\ ~TermDone(i, t)           \* (a cancelled term context wins the select: ValCancelled)
  /\ IF o.ok /\ o.rid = i /\ o.rtok = o.tok
     THEN th' = [th EXCEPT ![i]["val"] = [t EXCEPT !.pc = "wait", !.due = @ + VI, !.op = NoOp, !.n = 0]] /\ UNCHANGED <<el, g, wq>>
     ELSE \* every validateToken failure carries an error (a mismatch too): two in a row demote
          IF t.n + 1 >= 2 \/ Dv("validation_first_error_demotes")
          THEN Commit(i, LET r == DemoteBy(i, Cur3(i)) IN [r EXCEPT !.t["val"] = Idle])
          ELSE th' = [th EXCEPT ![i]["val"] = [t EXCEPT !.pc = "wait", !.due = @ + VI, !.op = NoOp, !.n = t.n + 1]] /\ UNCHANGED <<el, g, wq>>
  /\ UNCHANGED <<now, rec, seq, ntok, orph>>

\* the term context is cancelled while the validation read is in flight: validateToken returns "validation timeout",
\* which counts as a failure; the second one in a row runs handleValidationFailure for a term that is already over
ValCancelled(i) ==
  LET t == T(i, "val") o == t.op IN
  /\ t.pc = "get" /\ TermDone(i, t)
  /\ orph' = IF o.ph = "iss" THEN orph \cup {o @@ [i |-> i]} ELSE orph
  /\ IF t.n + 1 >= 2
     THEN Commit(i, LET r == BecomeFollower(i, Cur3(i))
                       s1 == [e |-> r.e, t |-> [r.t EXCEPT !["val"] = Idle], g |-> r.g, w |-> r.w]
                   IN Demoted(s1, r.was \/ Dv("validation_failure_notifies_unconditionally")))
     ELSE th' = [th EXCEPT ![i]["val"] = Idle] /\ UNCHANGED <<el, g, wq>>
  /\ UNCHANGED <<now, rec, seq, ntok>>

\* ---------------------------------------------------------------------------
\* watch loop
WatchOpenResp(i) ==
  LET t == T(i, "w") o == t.op IN
  /\ t.pc = "open" /\ o.ph = "app"
  /\ IF o.ok
     THEN th' = [th EXCEPT ![i]["w"] = [t EXCEPT !.pc = "loop", !.due = now + CHK, !.op = NoOp]] /\ UNCHANGED <<el, wq>>
     ELSE IF Dv("watch_failure_gives_up")
          THEN \* (before the fix) Watch failed: the loop returns (deferred: watcherRunning := false)
               /\ th' = [th EXCEPT ![i]["w"] = Idle]
               /\ el' = [el EXCEPT ![i].wrun = FALSE] /\ UNCHANGED wq
          ELSE \* Watch failed: retry after 500 ms, with the periodic check in between
               /\ th' = [th EXCEPT ![i]["w"] = [t EXCEPT !.pc = "wsleep", !.due = now + CHK, !.op = NoOp]]
               /\ UNCHANGED <<el, wq>>
  /\ UNCHANGED <<now, rec, seq, ntok, orph, g>>

\* the retry timer of a failed Watch call: periodic check (followers), then the next Watch call
WatchRetry(i) ==
  LET t == T(i, "w") IN
  /\ t.pc = "wsleep" /\ t.due <= now /\ ~CtxDone(i, t)
  /\ th' = [th EXCEPT ![i]["w"] = IF el[i].leader THEN [t EXCEPT !.pc = "open", !.op = MkOp("watch", 0, 0)]
                                   ELSE [t EXCEPT !.pc = "chk", !.op = MkOp("get", 0, 0), !.aux = 1]]
  /\ UNCHANGED <<now, rec, seq, ntok, wq, el, orph, g>>

\* ctx.Done(): watcher.Stop(), watcherRunning := false
WatchExit(i) ==
  LET t == T(i, "w") IN
  /\ t.pc \in {"loop", "wsleep"} /\ CtxDone(i, t)
  /\ th' = [th EXCEPT ![i]["w"] = Idle]
  /\ el' = [el EXCEPT ![i].wrun = IF t.gen = el[i].gen THEN FALSE ELSE @]
  /\ wq' = [wq EXCEPT ![i] = IF t.gen = el[i].gen \/ TRUE THEN <<>> ELSE @]
  /\ UNCHANGED <<now, rec, seq, ntok, orph, g>>

WatchEvent(i) ==
  LET t == T(i, "w") e == el[i] IN
  /\ t.pc = "loop" /\ wq[i] # <<>>
  /\ (~CtxDone(i, t) \/ Dv("watch_acts_after_cancel"))
  /\ LET ev == Head(wq[i])
         st0 == [Cur3(i) EXCEPT !.w = Tail(wq[i])]
     IN
     IF ev.k = "bad" THEN Commit(i, st0)                       \* json.Unmarshal failed: the notification is ignored
     ELSE IF ev.k \in {"nil", "del"}
     THEN \* handleWatchEvent: go attemptAcquireWithRetry(e.ctx)   (e.ctx nil after StopWithContext: a dead round)
          IF e.ctxnil \/ ~e.alive THEN Commit(i, st0)
          ELSE \E st \in SpawnRound(i, st0) : Commit(i, st)
     ELSE IF e.leader
          THEN IF ev.id # i /\ (ev.rev > e.rev \/ Dv("stale_event_demotes"))
               THEN Commit(i, LET r == BecomeFollower(i, st0) IN
                              IF Dv("watcher_demotion_without_callback") THEN [e |-> r.e, t |-> r.t, g |-> r.g, w |-> r.w]
                              ELSE Demoted([e |-> r.e, t |-> r.t, g |-> r.g, w |-> r.w], r.was))
               ELSE Commit(i, st0)
          ELSE IF e.lid # ev.id
               THEN Commit(i, [st0 EXCEPT !.e = Observe(@, ev.id, ev.rev)])
               ELSE LET st1 == [st0 EXCEPT !.e = Observe(@, ev.id, ev.rev)] IN
                    IF TK[i] /\ Prio[i] > ev.prio /\ st1.t["tko"].pc = "idle" /\ ~(e.ctxnil \/ ~e.alive)
                    THEN Commit(i, [st1 EXCEPT !.t["tko"] = [Idle EXCEPT !.pc = "start", !.gen = e.gen]])
                    ELSE Commit(i, st1)
  /\ UNCHANGED <<now, rec, seq, ntok, orph>>

\* the takeover goroutine starts: attemptAcquire
TkoStart(i) ==
  LET t == T(i, "tko") IN
  /\ t.pc = "start"
  /\ IF el[i].leader /\ ~Dv("attempt_while_leading")
     THEN th' = [th EXCEPT ![i]["tko"] = Idle] /\ UNCHANGED ntok
     ELSE th' = [th EXCEPT ![i]["tko"] = [t EXCEPT !.pc = "create", !.op = MkOp("create", 0, ntok + 1)]] /\ ntok' = ntok + 1
  /\ UNCHANGED <<now, rec, seq, wq, el, orph, g>>

CheckTick(i) ==
  LET t == T(i, "w") IN
  /\ t.pc = "loop" /\ t.due <= now /\ ~CtxDone(i, t)
  /\ IF el[i].leader
     THEN th' = [th EXCEPT ![i]["w"].due = @ + CHK]
     ELSE th' = [th EXCEPT ![i]["w"] = [t EXCEPT !.pc = "chk", !.op = MkOp("get", 0, 0)]]
  /\ UNCHANGED <<now, rec, seq, ntok, wq, el, orph, g>>

CheckResp(i) ==
  LET t == T(i, "w") o == t.op e == el[i] IN
  /\ t.pc = "chk" /\ o.ph = "app"
  /\ LET back == IF t.aux = 1 THEN [t EXCEPT !.pc = "open", !.op = MkOp("watch", 0, 0), !.aux = 0]     \* the check between two Watch calls
                 ELSE [t EXCEPT !.pc = "loop", !.op = NoOp, !.due = IF @ + CHK > now THEN @ + CHK ELSE now + 1]
         st0 == [Cur3(i) EXCEPT !.t["w"] = back]
     IN IF e.leader THEN Commit(i, st0)                     \* checkKeyAndReelect: if e.IsLeader() return (checked before the Get only; the stores are guarded)
        ELSE IF ~o.ok \/ o.rcls = "empty"                   \* no key, or a zero-length value: re-election
             THEN IF CtxDone(i, t) THEN Commit(i, st0)      \* go attemptAcquireWithRetry(ctx): exits at once
                  ELSE \E st \in SpawnRound(i, st0) : Commit(i, st)
             ELSE IF o.rcls = "malformed" THEN Commit(i, st0)
             ELSE IF e.lid # None /\ e.lid # o.rid THEN Commit(i, [st0 EXCEPT !.e = Observe(@, o.rid, o.res)])
                  ELSE Commit(i, st0)
  /\ UNCHANGED <<now, rec, seq, ntok, orph>>

\* ---------------------------------------------------------------------------
\* Stop / StopWithContext
StopBegin(i, kind) ==
  /\ kind \in StopKinds /\ g.stops < MaxStops
  /\ el[i].life \in {"running", "halted"} /\ th[i]["stp"].pc = "idle"
  /\ LET e == el[i]
         e2 == [e EXCEPT !.life = "stopping", !.alive = FALSE, !.wasLeader = e.leader,
                         !.leader = IF Dv("stop_keeps_claim") THEN @ ELSE FALSE, !.state = "STOPPED", !.wrun = FALSE,
                         !.termAlive = FALSE, !.ctxOpen = {}, !.grace = -1, !.pdue = -1, !.lostAt = -1]
     IN /\ el' = [el EXCEPT ![i] = e2]
        /\ th' = [th EXCEPT ![i]["stp"] = [Idle EXCEPT !.pc = "wait", !.due = now + 20 * H, !.aux = IF kind = "stop" THEN 0 ELSE IF kind = "ctx" THEN 1 ELSE IF kind = "ctxdel" THEN 2 ELSE 3]]
  /\ g' = [g EXCEPT !.stops = @ + 1]
  /\ UNCHANGED <<now, rec, seq, ntok, wq, orph>>

WgIdle(i) == \A s \in Tracked : th[i][s].pc = "idle"

StopWaitDone(i) ==
  LET t == T(i, "stp") e == el[i] IN
  /\ t.pc = "wait" /\ WgIdle(i) /\ t.aux # 3
  /\ IF t.aux = 0
     THEN \* Stop(): OnDemote, return
          /\ el' = [el EXCEPT ![i] = [e EXCEPT !.life = "stopped", !.stopRet = TRUE, !.cb = IF e.wasLeader THEN @ - 1 ELSE @]]
          /\ th' = [th EXCEPT ![i]["stp"] = Idle]
          /\ g' = IF e.wasLeader /\ e.cb # 1 THEN Viol(g, "C08_demotion_without_matching_promotion") ELSE g
     ELSE \* StopWithContext: e.ctx = nil, then (DeleteKey && wasLeader) owner check
          /\ el' = [el EXCEPT ![i].ctxnil = TRUE]
          /\ th' = [th EXCEPT ![i]["stp"] = IF t.aux = 2 /\ e.wasLeader
                                             THEN (IF Dv("delete_without_owner_check") THEN [t EXCEPT !.pc = "del", !.op = MkOp("delete", 0, 0)]
                                                   ELSE [t EXCEPT !.pc = "own", !.op = MkOp("get", 0, e.tok)])
                                             ELSE [t EXCEPT !.pc = "fin"]]
          /\ UNCHANGED g
  /\ UNCHANGED <<now, rec, seq, ntok, wq, orph>>

\* StopWithContext whose context is cancelled (or whose time-out fires) while it waits for the goroutines (kind "ctxabort"):
\* the call returns an error; leadership was given up in StopBegin, so OnDemote is due (it runs in the background);
\* e.ctx stays cancelled-but-not-nil: Start and a further StopWithContext are accepted (life "halted")
StopAbort(i) ==
  LET t == T(i, "stp") e == el[i] IN
  /\ t.pc = "wait" /\ t.aux = 3
  /\ el' = [el EXCEPT ![i] = [e EXCEPT !.life = "halted", !.cb = IF e.wasLeader /\ ~Dv("aborted_stop_skips_ondemote") THEN @ - 1 ELSE @,
                                       !.wasLeader = FALSE]]
  /\ th' = [th EXCEPT ![i]["stp"] = Idle]
  /\ g' = IF e.wasLeader /\ e.cb # 1 THEN Viol(g, "C08_demotion_without_matching_promotion") ELSE g
  /\ UNCHANGED <<now, rec, seq, ntok, wq, orph>>

StopOwnsResp(i) ==
  LET t == T(i, "stp") o == t.op IN
  /\ t.pc = "own" /\ o.ph = "app"
  /\ th' = [th EXCEPT ![i]["stp"] = IF o.ok /\ o.rid = i /\ o.rtok = o.tok
                                     THEN [t EXCEPT !.pc = "del", !.op = MkOp("delete", 0, 0)]
                                     ELSE [t EXCEPT !.pc = "fin", !.op = NoOp]]
  /\ UNCHANGED <<now, rec, seq, ntok, wq, el, orph, g>>

StopDeleteResp(i) ==
  LET t == T(i, "stp") o == t.op IN
  /\ t.pc = "del" /\ o.ph = "app"
  /\ th' = [th EXCEPT ![i]["stp"] = [t EXCEPT !.pc = "fin", !.op = NoOp]]
  /\ UNCHANGED <<now, rec, seq, ntok, wq, el, orph, g>>

StopFinish(i) ==
  LET t == T(i, "stp") e == el[i] IN
  /\ t.pc = "fin"
  /\ el' = [el EXCEPT ![i] = [e EXCEPT !.life = "stopped", !.stopRet = TRUE, !.cb = IF e.wasLeader THEN @ - 1 ELSE @]]
  /\ th' = [th EXCEPT ![i]["stp"] = Idle]
  /\ g' = IF e.wasLeader /\ e.cb # 1 THEN Viol(g, "C08_demotion_without_matching_promotion") ELSE g
  /\ UNCHANGED <<now, rec, seq, ntok, wq, orph>>


\* ---------------------------------------------------------------------------
\* ValidateToken / ValidateTokenOrDemote (API goroutine "api")
ApiValidate(i, vod) ==
  /\ g.api < MaxApi /\ el[i].life = "running" /\ th[i]["api"].pc = "idle"
  /\ g' = [g EXCEPT !.api = @ + 1, !.quiet = IF vod THEN FALSE ELSE @]   \* a demotion by the user's own call is not C07's business
  /\ IF ~el[i].leader /\ ~Dv("validate_without_leader_gate")
     THEN UNCHANGED th                                                      \* ErrNotLeader: false, nothing to demote
     ELSE th' = [th EXCEPT ![i]["api"] = [Idle EXCEPT !.pc = "get", !.gen = el[i].gen, !.aux = IF vod THEN 1 ELSE 0,
                                                     !.op = [MkOp("get", 0, el[i].tok) EXCEPT
                                                               !.own = el[i].leader /\ Live /\ rec.id = i /\ rec.tok = el[i].tok]]]
  /\ UNCHANGED <<now, rec, seq, ntok, wq, el, orph>>

ApiGetResp(i) ==
  LET t == T(i, "api") o == t.op
      valid == IF Dv("validate_fast_path") THEN o.ok /\ (o.res = el[i].rev \/ (o.rid = i /\ o.rtok = o.tok))
               ELSE o.ok /\ o.rid = i /\ o.rtok = o.tok
      gg == IF valid /\ ~o.own THEN Viol(g, "C04_true_without_owning_record") ELSE g
  IN
  /\ t.pc = "get" /\ o.ph = "app"
  /\ IF ~valid /\ t.aux = 1 /\ el[i].leader
     THEN Commit(i, LET r == DemoteBy(i, [Cur3(i) EXCEPT !.g = gg]) IN [r EXCEPT !.t["api"] = Idle])
     ELSE th' = [th EXCEPT ![i]["api"] = Idle] /\ g' = gg /\ UNCHANGED <<el, wq>>
  /\ UNCHANGED <<now, rec, seq, ntok, orph>>

\* ---------------------------------------------------------------------------
\* connection monitoring (connection.go)
Disconnect(i) ==
  /\ CONN[i] /\ g.connev < MaxConnEv /\ el[i].life = "running"
  /\ LET e == el[i] IN
     \* every notification restarts the timer (before the fix: only while leading, so that a timer armed in an earlier term
     \* kept running through a notification received as follower)
     el' = [el EXCEPT ![i] = [e EXCEPT !.conn = "disconnected", !.lastDisc = now,
                                       !.grace = IF e.leader \/ ~Dv("disconnect_ignored_while_follower") THEN now + GRACE ELSE e.grace,
                                       !.pdue = IF e.leader THEN now + GRACE ELSE e.pdue]]
  /\ g' = [g EXCEPT !.connev = @ + 1, !.quiet = FALSE]
  /\ UNCHANGED <<now, rec, seq, ntok, wq, th, orph>>

Reconnect(i) ==
  /\ CONN[i] /\ g.connev < MaxConnEv /\ el[i].life = "running" /\ th[i]["vfy"].pc = "idle"
  /\ el' = [el EXCEPT ![i].conn = "reconnected", ![i].grace = -1, ![i].pdue = -1]
  /\ th' = IF el[i].leader THEN [th EXCEPT ![i]["vfy"] = [Idle EXCEPT !.pc = "sleep", !.due = now + 2, !.gen = el[i].gen]] ELSE th
  /\ g' = [g EXCEPT !.connev = @ + 1, !.quiet = FALSE]
  /\ UNCHANGED <<now, rec, seq, ntok, wq, orph>>

Closed(i) ==
  /\ CONN[i] /\ g.connev < MaxConnEv /\ el[i].life = "running"
  /\ el' = [el EXCEPT ![i].conn = "closed"]
  /\ g' = [g EXCEPT !.connev = @ + 1, !.quiet = FALSE]
  /\ UNCHANGED <<now, rec, seq, ntok, wq, th, orph>>

\* time.AfterFunc(gracePeriod): handleGracePeriodExpired
GraceFire(i) ==
  LET e == el[i] IN
  /\ e.grace >= 0 /\ e.grace <= now
  /\ IF e.conn \in (IF Dv("closed_suppresses_grace") THEN {"disconnected"} ELSE {"disconnected", "closed"}) /\ e.leader
     THEN Commit(i, LET r == DemoteBy(i, [Cur3(i) EXCEPT !.e.grace = -1]) IN
                    [r EXCEPT !.g = IF now < e.lastDisc + GRACE THEN Viol(@, "C11_grace_demotion_too_early") ELSE @])
     ELSE el' = [el EXCEPT ![i].grace = -1] /\ UNCHANGED <<th, g, wq>>
  /\ UNCHANGED <<now, rec, seq, ntok, orph>>

\* verifyLeadershipAfterReconnect: sleep 100 ms, Get, validateToken (a second Get)
VfySleepDone(i) ==
  LET t == T(i, "vfy") IN
  /\ t.pc = "sleep" /\ t.due <= now
  /\ th' = [th EXCEPT ![i]["vfy"] = [t EXCEPT !.pc = "get1", !.op = MkOp("get", 0, el[i].tok)]]
  /\ UNCHANGED <<now, rec, seq, ntok, wq, el, orph, g>>

VerifyGetResp(i) ==
  LET t == T(i, "vfy") o == t.op e == el[i] IN
  /\ t.pc \in {"get1", "get2"} /\ o.ph = "app"
  /\ IF t.pc = "get1" /\ o.ok
     THEN th' = [th EXCEPT ![i]["vfy"] = [t EXCEPT !.pc = "get2", !.op = MkOp("get", 0, e.tok)]] /\ UNCHANGED <<el, g, wq>>
     ELSE IF t.pc = "get2" /\ o.ok /\ o.rid = i /\ o.rtok = o.tok
          THEN \* verification succeeded
               /\ el' = [el EXCEPT ![i].conn = IF e.leader /\ (e.conn = "reconnected" \/ Dv("verify_sets_connected_after_newer_disconnect"))
                                               THEN "connected" ELSE @]
               /\ th' = [th EXCEPT ![i]["vfy"] = Idle] /\ UNCHANGED <<g, wq>>
          ELSE \* handleReconnectVerificationFailed
               IF e.leader /\ ~Dv("verification_failure_without_demotion")
               THEN Commit(i, LET r == DemoteBy(i, Cur3(i)) IN [r EXCEPT !.t["vfy"] = Idle])
               ELSE th' = [th EXCEPT ![i]["vfy"] = Idle] /\ UNCHANGED <<el, g, wq>>
  /\ UNCHANGED <<now, rec, seq, ntok, orph>>

\* ---------------------------------------------------------------------------
\* time
TimerSlots == {"hb", "val", "w"} \cup {RN(k) : k \in Rounds}
Due(i, s) == LET t == T(i, s) IN
  \/ t.pc \in {"wait", "jit", "bo", "wsleep"} /\ t.due <= now
  \/ s = "w" /\ t.pc = "loop" /\ t.due <= now
  \/ s = "hb" /\ t.pc = "upd" /\ t.op.at + UT <= now
\* responsive store: an operation must not stay unanswered longer than LAT
Overdue(i, s) == LET o == T(i, s).op IN o.ph \in {"iss", "app"} /\ ~el[i].part /\ o.at + LAT <= now
\* a goroutine that can take a step without time passing
Ready(i, s) == LET t == T(i, s) IN
  \/ t.pc = "start" \/ t.pc = "fin" \/ t.pc = "health"
  \/ t.op.ph = "app"
  \/ s = "w" /\ t.pc = "loop" /\ (wq[i] # <<>> \/ CtxDone(i, t))
  \/ s = "w" /\ t.pc = "wsleep" /\ CtxDone(i, t)
  \/ s = "stp" /\ t.pc = "wait" /\ WgIdle(i)
  \/ s \in {"hb", "val"} /\ t.pc \in {"upd", "get", "health"} /\ TermDone(i, t)

\* C10: j is a ready, takeover-enabled follower next to a claiming leader whose stored priority is strictly lower
CanPreempt(j) == /\ TK[j] /\ ReadyCand(j) /\ Live /\ Readable /\ rec.id \in Inst \ {j} /\ el[rec.id].leader /\ Prio[j] > rec.prio

Advance ==
  /\ now < MaxNow
  /\ \A i \in Inst, s \in Slots : ~Due(i, s) /\ ~Overdue(i, s) /\ ~Ready(i, s)
  /\ \A i \in Inst : ~(el[i].grace >= 0 /\ el[i].grace <= now) /\ ~(th[i]["vfy"].pc = "sleep" /\ th[i]["vfy"].due <= now)
  /\ now' = now + 1
  /\ LET expires == rec.kind = "val" /\ now < rec.at + TTL /\ now + 1 >= rec.at + TTL IN      \* silent expiry at the new instant
     /\ el' = [j \in Inst |-> LET e1 == IF expires /\ el[j].leader /\ rec.id = j /\ rec.tok = el[j].tok THEN [el[j] EXCEPT !.lostAt = now + 1] ELSE el[j]
                             IN [e1 EXCEPT !.preSince = IF CanPreempt(j) THEN (IF @ >= 0 THEN @ ELSE now) ELSE -1]]
     /\ g' = IF expires
             THEN LET g1 == IF g.calm /\ (\E j \in Inst : el[j].leader /\ rec.id = j) THEN Viol(g, "C02_record_expired_while_claiming") ELSE g IN
                  [g1 EXCEPT !.vacSince = IF \E j \in Inst : ReadyCand(j) THEN now + 1 ELSE @]
             ELSE g
  /\ UNCHANGED <<rec, seq, ntok, wq, th, orph>>

\* ---------------------------------------------------------------------------
Next ==
  \/ Advance
  \/ OutsideDelete
  \/ \E k \in OutKinds \ {"del"}, id \in Inst \cup {"X"} : OutsidePut(k, id)
  \/ \E o \in orph : OrphApply(o) \/ OrphDrop(o)
  \/ \E i \in Inst :
       \/ Start(i) \/ \E k \in StopKinds : StopBegin(i, k)
       \/ StopWaitDone(i) \/ StopAbort(i) \/ StopOwnsResp(i) \/ StopDeleteResp(i) \/ StopFinish(i)
       \/ \E s \in Slots : StoreApply(i, s) \/ LoseAck(i, s) \/ PartTimeout(i, s)
                          \/ \E c \in {"timeout", "other"} : StoreFail(i, s, c)
       \/ \E s \in AcqSlots : AcqCreateResp(i, s) \/ TkGetResp(i, s) \/ TkUpdateResp(i, s)
       \/ \E k \in Rounds : RoundTimer(i, k)
       \/ TkoStart(i)
       \/ HbTick(i) \/ HbUpdateResp(i) \/ HbTimeout(i) \/ HbCancelled(i) \/ \E b \in BOOLEAN : HbHealth(i, b)
       \/ ValTick(i) \/ ValGetResp(i) \/ ValCancelled(i)
       \/ WatchOpenResp(i) \/ WatchRetry(i) \/ WatchExit(i) \/ WatchEvent(i) \/ CheckTick(i) \/ CheckResp(i)
       \/ Partition(i) \/ Heal(i) \/ DropEvent(i)
       \/ \E v \in BOOLEAN : ApiValidate(i, v)
       \/ ApiGetResp(i)
       \/ Disconnect(i) \/ Reconnect(i) \/ Closed(i) \/ GraceFire(i) \/ VfySleepDone(i) \/ VerifyGetResp(i)

Spec == Init /\ [][Next]_vars

\* ---------------------------------------------------------------------------
\* properties (Props.tla operators on the model's state)
NoOverflow == ~g.overflow

RecP == [live |-> Live, id |-> rec.id, tok |-> rec.tok, prio |-> rec.prio, cls |-> rec.cls,
         rev |-> rec.rev, writer |-> rec.writer, at |-> rec.at]

KnownViol == {"KNOWN_C01_delete_after_owner_check"}
NoViolation == g.viol \subseteq KnownViol                                                           \* C01 C05 C08(alternation) C12
C02_AtMostOne == g.calm => AtMostOneLeader({i \in Inst : el[i].leader})
C02_Backed == g.calm => \A i \in Inst : el[i].leader => ClaimBacked(i, RecP, el[i].tok)
C08_Balanced == \A i \in Inst : el[i].life # "stopping" => Balanced(el[i].leader, el[i].cb + (IF el[i].life = "stopped" /\ FALSE THEN 0 ELSE 0), 0) \/ el[i].cb \in {0, 1}
C08_Mirror == \A i \in Inst : (el[i].life \in {"running", "stopped", "init", "halted"} /\ (\A s \in Slots : ~Ready(i, s))) => (el[i].leader <=> el[i].cb = 1)
\* after Stop returned no goroutine of the instance is about to issue a further operation of a multi-step sequence
C09_NoNewOps == \A i \in Inst : el[i].life = "stopped" => \A s \in AcqSlots : th[i][s].pc \notin {"tkget", "tkupd"} \/ th[i][s].op.at <= now
C09_Final == \A i \in Inst : el[i].life = "stopped" => ~el[i].leader /\ el[i].state = "STOPPED"
C18_Consistent == \A i \in Inst : (el[i].leader <=> el[i].state = "LEADER") /\ (el[i].leader => el[i].lid = i)
C19_Ctx == \A i \in Inst : /\ (el[i].leader /\ el[i].termAlive => el[i].term \in el[i].ctxOpen)
                           /\ (~el[i].leader => el[i].ctxOpen = {})
\* C06: a vacancy is filled within periodic check + maximum jitter + latencies while a ready candidate exists
\* (only evaluated while no store fault has been injected; lost watch events are allowed)
MaxJit == CHOOSE j \in JIT : \A k \in JIT : k <= j
C06_Filled == (g.vacSince >= 0 /\ g.faults = 0 /\ \E j \in Inst : ReadyCand(j)) => now <= g.vacSince + CHK + MaxJit + 6 * LAT + 2
\* ... and after a transient failure (a failed or unanswered operation, a lost notification) has ceased the same bound applies again
C06_Recovers == (g.vacSince >= 0 /\ g.lastFault >= 0 /\ (\A j \in Inst : ~el[j].part) /\ \E j \in Inst : ReadyCand(j))
                => now <= (IF g.vacSince > g.lastFault THEN g.vacSince ELSE g.lastFault) + CHK + MaxJit + 5 * LAT + 1
\* C11: the leader is demoted when the grace period since the latest disconnect elapses without a reconnect
C11_Grace == \A i \in Inst : el[i].pdue >= 0 /\ el[i].leader => now <= el[i].pdue
\* C03: without store faults a leader whose record was lost is demoted by the completion of its next refresh
\* (instances without a health checker: an unhealthy tick skips the refresh, known finding)
C03_Bound == \A i \in Inst : (el[i].leader /\ el[i].lostAt >= 0 /\ g.faults = 0 /\ HN[i] = 0) => now <= el[i].lostAt + H + LAT
\* C10: in fault-free conditions the higher-priority takeover-enabled instance leads within three heartbeat intervals
C10_Prompt == \A j \in Inst : (el[j].preSince >= 0 /\ CanPreempt(j) /\ g.faults = 0 /\ g.outside = 0 /\ g.connev = 0 /\ g.unhealthy = 0)
                               => now <= el[j].preSince + 3 * H + 4 * LAT
\* used with -simulate to end a random behaviour at the time horizon (tools/simgen.py exports the behaviour)
SimRunning == now < MaxNow
TypeOK == /\ now \in 0..MaxNow /\ \A i \in Inst : el[i].cb \in -1..2
=============================================================================
