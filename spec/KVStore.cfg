\* KVStore.tla
SPECIFICATION KVSpec
CONSTANT MaxSeq = 4
INVARIANTS Contract WatchOrder
CHECK_DEADLOCK FALSE
