---------------------------- MODULE ConfigValid ----------------------------
(***************************************************************************)
(* C16  Configuration validation accepts exactly the documented            *)
(* configurations.                                                         *)
(*                                                                         *)
(* A duration is a symbolic pair <<m, o>> standing for m*B + o nanoseconds *)
(* for an unspecified base B > 12 (the harness instantiates B = 13 ns,     *)
(* 1 us, 1 ms, 1 s, 1 h, 1 year/12), so every threshold of the rules and   *)
(* its +/-1 ns neighbours exist at every magnitude without leaving TLC's   *)
(* integers.  Comparison is lexicographic, which is exact because          *)
(* |o| <= 12 < B.                                                          *)
(*   Documented(c)  the property's accept condition                        *)
(*   Offending(c)   fields that violate a rule (the reported field must be *)
(*                  one of them)                                           *)
(*   Impl(c)        transcription of leader/validation.go (conformance)    *)
(* Mode "gen": TLC enumerates the lattice and writes it to IOEnv.OUT.      *)
(* Mode "check": TLC reads the results of the real NewElection calls from  *)
(* IOEnv.IN and writes the violated clauses to IOEnv.OUT.                  *)
(***************************************************************************)
EXTENDS Integers, Sequences, FiniteSets, TLC, Json, IOUtils, SequencesExt

Zero == <<0, 0>>
Lt(a, b) == a[1] < b[1] \/ (a[1] = b[1] /\ a[2] < b[2])
Le(a, b) == ~Lt(b, a)
Times(k, a) == <<k * a[1], k * a[2]>>
Plus(a, d) == <<a[1], a[2] + d>>

HVals == {<<-1, 0>>, <<0, -1>>, Zero, <<0, 1>>, <<1, 0>>, <<1, 1>>, <<2, -1>>, <<3, 0>>}
Around(x) == {Plus(x, d) : d \in {-1, 0, 1}}
Small == {<<-1, 0>>, <<0, -1>>, Zero, <<0, 1>>}
Big == {<<40, 0>>}
TTLVals(h) == Small \cup Around(Times(3, h)) \cup Around(Times(2, h)) \cup Big
VIVals(h)  == Small \cup Around(h) \cup Big
GPVals(h)  == Small \cup Around(Times(2, h)) \cup Around(h) \cup Big
Strs == {"", "x"}
Ints == {-1, 0, 1}

DurCfgs == UNION {UNION {UNION {
          [b : {"x"}, g : {"x"}, id : {"x"}, h : {h}, ttl : {ttl}, vi : {vi}, gp : GPVals(h),
           mcf : {0}, prio : {1}, tk : {FALSE}]
          : vi \in VIVals(h)} : ttl \in TTLVals(h)} : h \in HVals}
Good == [b |-> "x", g |-> "x", id |-> "x", h |-> <<1, 0>>, ttl |-> <<3, 0>>, vi |-> Zero, gp |-> Zero, mcf |-> 0, prio |-> 1, tk |-> FALSE]
\* strings, integers and flags around zero, each combined with a few duration situations
OtherCfgs == {[[[c EXCEPT !.b = s[1], !.g = s[2], !.id = s[3]] EXCEPT !.mcf = n[1], !.prio = n[2], !.tk = n[3]] EXCEPT !.ttl = d[1], !.vi = d[2]] :
                 s \in Strs \X Strs \X Strs, n \in Ints \X Ints \X BOOLEAN, d \in {<<3, 0>>, <<2, 12>>, <<0, 0>>} \X {Zero, <<0, 1>>, <<1, 0>>},
                 c \in {Good}}
Cfgs == DurCfgs \cup OtherCfgs

\* ---- the property ----
Documented(c) ==
  /\ c.b # "" /\ c.g # "" /\ c.id # ""
  /\ Lt(Zero, c.ttl) /\ Lt(Zero, c.h)
  /\ Le(Times(3, c.h), c.ttl)
  /\ (c.vi = Zero \/ Le(c.h, c.vi))
  /\ (c.gp = Zero \/ Le(Times(2, c.h), c.gp))
  /\ c.mcf >= 0
  /\ (c.tk => c.prio > 0)

Offending(c) ==
  (IF c.b = "" THEN {"Bucket"} ELSE {}) \cup (IF c.g = "" THEN {"Group"} ELSE {}) \cup
  (IF c.id = "" THEN {"InstanceID"} ELSE {}) \cup
  (IF ~Lt(Zero, c.ttl) \/ ~Le(Times(3, c.h), c.ttl) THEN {"TTL"} ELSE {}) \cup
  (IF ~Lt(Zero, c.h) THEN {"HeartbeatInterval"} ELSE {}) \cup
  \* TTL >= 3 x HeartbeatInterval relates two fields: either may be named
  (IF ~Le(Times(3, c.h), c.ttl) THEN {"HeartbeatInterval"} ELSE {}) \cup
  (IF ~(c.vi = Zero \/ Le(c.h, c.vi)) THEN {"ValidationInterval"} ELSE {}) \cup
  (IF ~(c.gp = Zero \/ Le(Times(2, c.h), c.gp)) THEN {"DisconnectGracePeriod"} ELSE {}) \cup
  (IF c.mcf < 0 THEN {"MaxConsecutiveFailures"} ELSE {}) \cup
  (IF c.tk /\ c.prio <= 0 THEN {"Priority"} ELSE {})

\* ---- the code (leader/validation.go), first failing rule wins ----
Impl(c) ==
  IF c.b = "" THEN "Bucket" ELSE IF c.g = "" THEN "Group" ELSE IF c.id = "" THEN "InstanceID"
  ELSE IF Le(c.ttl, Zero) THEN "TTL"
  ELSE IF Le(c.h, Zero) THEN "HeartbeatInterval"
  ELSE IF Lt(c.ttl, Times(3, c.h)) THEN "TTL"
  ELSE IF Lt(c.vi, Zero) THEN "ValidationInterval"
  ELSE IF Lt(Zero, c.vi) /\ Lt(c.vi, c.h) THEN "ValidationInterval"
  ELSE IF Lt(c.gp, Zero) THEN "DisconnectGracePeriod"
  ELSE IF Lt(Zero, c.gp) /\ Lt(c.gp, Times(2, c.h)) THEN "DisconnectGracePeriod"
  ELSE IF c.mcf < 0 THEN "MaxConsecutiveFailures"
  ELSE IF c.tk /\ c.prio <= 0 THEN "Priority"
  ELSE "ok"

\* design level: the transcription of the code satisfies the property on the whole lattice
ImplMeetsProperty == \A c \in Cfgs : /\ (Impl(c) = "ok") = Documented(c)
                                     /\ (Impl(c) # "ok" => Impl(c) \in Offending(c))

CfgSeq == SetToSeq(Cfgs)
Row(c) == [b |-> c.b, g |-> c.g, id |-> c.id, hm |-> c.h[1], ho |-> c.h[2], tm |-> c.ttl[1], to |-> c.ttl[2],
           vm |-> c.vi[1], vo |-> c.vi[2], gm |-> c.gp[1], go |-> c.gp[2], mcf |-> c.mcf, prio |-> c.prio, tk |-> c.tk]
OfRow(r) == [b |-> r.b, g |-> r.g, id |-> r.id, h |-> <<r.hm, r.ho>>, ttl |-> <<r.tm, r.to>>, vi |-> <<r.vm, r.vo>>,
             gp |-> <<r.gm, r.go>>, mcf |-> r.mcf, prio |-> r.prio, tk |-> r.tk]

=============================================================================
