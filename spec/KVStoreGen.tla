----------------------------- MODULE KVStoreGen -----------------------------
(* Enumerates all operation sequences up to IOEnv.DEPTH over the abstract alphabet below, resolves them to concrete
   operations with the state of KVStore.tla, and writes each sequence with the expected result of every operation and
   the expected event list of every watcher to IOEnv.OUT. *)
EXTENDS KVStore, Json, IOUtils, SequencesExt

Alphabet == {"create", "update_latest", "update_lastseq", "update_zero", "update_stale", "update_future", "update_same", "update_stale_same",
             "get", "delete", "expire", "watch", "create_j"}
Depth == atoi(IOEnv.DEPTH)
AbsSeqs == UNION {[1..n -> Alphabet] : n \in 1..Depth}

\* concrete operation for abstract symbol a in state s (n = position, used for distinct values)
Concrete(s, a, n) ==
  LET v == "v" \o ToString(n) IN
  CASE a = "create"         -> [op |-> "create", key |-> "k", val |-> v, exp |-> 0]
    [] a = "create_j"       -> [op |-> "create", key |-> "j", val |-> v, exp |-> 0]
    [] a = "update_latest"  -> [op |-> "update", key |-> "k", val |-> v, exp |-> s.latest["k"]]
    \* a refresh: the bytes the key already holds, against its latest revision (a heartbeat rewrites the same payload)
    [] a = "update_same"    -> [op |-> "update", key |-> "k", val |-> (IF s.rec["k"].kind = "val" THEN s.rec["k"].val ELSE v), exp |-> LastSeq(s, "k")]
    \* ... and the same bytes against a revision that is no longer the latest (a repeated write whose first answer was lost)
    [] a = "update_stale_same" -> [op |-> "update", key |-> "k", val |-> (IF s.rec["k"].kind = "val" THEN s.rec["k"].val ELSE v),
                                   exp |-> IF s.latest["k"] > 1 THEN s.latest["k"] - 1 ELSE s.seq + 3]
    [] a = "update_lastseq" -> [op |-> "update", key |-> "k", val |-> v, exp |-> LastSeq(s, "k")]
    [] a = "update_zero"    -> [op |-> "update", key |-> "k", val |-> v, exp |-> 0]
    [] a = "update_stale"   -> [op |-> "update", key |-> "k", val |-> v, exp |-> IF s.latest["k"] > 1 THEN s.latest["k"] - 1 ELSE s.seq + 3]
    [] a = "update_future"  -> [op |-> "update", key |-> "k", val |-> v, exp |-> s.seq + 7]
    [] a = "get"            -> [op |-> "get", key |-> "k", val |-> "", exp |-> 0]
    [] a = "delete"         -> [op |-> "delete", key |-> "k", val |-> "", exp |-> 0]
    [] a = "expire"         -> [op |-> "expire", key |-> "k", val |-> "", exp |-> 0]
    [] a = "watch"          -> [op |-> "watch", key |-> "k", val |-> "", exp |-> 0]

RECURSIVE Run(_, _, _)
Run(s, as, n) ==      \* returns [ops: sequence of [op.., r..], s: final state]
  IF as = <<>> THEN [ops |-> <<>>, s |-> s]
  ELSE LET op == Concrete(s, Head(as), n)
           x == Step(s, op)
           rest == Run(x.s, Tail(as), n + 1)
       IN [ops |-> <<[op |-> op.op, key |-> op.key, val |-> op.val, exp |-> op.exp, sym |-> Head(as),
                      ok |-> x.r.ok, rev |-> x.r.rev, rval |-> x.r.val, err |-> x.r.err]>> \o rest.ops, s |-> rest.s]

Row(as) == LET x == Run(S0, as, 1) IN
           [ops |-> x.ops, watchers |-> [n \in 1..Len(x.s.w) |-> x.s.w[n].evs]]

ASSUME PrintT(<<"sequences", Cardinality(AbsSeqs)>>)
ASSUME LET ss == SetToSeq(AbsSeqs) IN ndJsonSerialize(IOEnv.OUT, [k \in 1..Len(ss) |-> Row(ss[k])])
=============================================================================
