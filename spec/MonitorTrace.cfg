SPECIFICATION MSpec
POSTCONDITION Consumed
CHECK_DEADLOCK FALSE
