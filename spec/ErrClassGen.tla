----------------------------- MODULE ErrClassGen -----------------------------
EXTENDS ErrClass
ASSUME PrintT(<<"terms", Cardinality(Terms), "required_not_either", Cardinality({t \in Terms : Required(t) # "either"})>>)
ASSUME PrintT(<<"design_disagreements", Cardinality(Disagreements), IF Disagreements = {} THEN "none" ELSE CHOOSE t \in Disagreements : TRUE>>)
ASSUME ImplMeetsProperty
ASSUME LET ts == SetToSeq(Terms) IN ndJsonSerialize(IOEnv.OUT, [k \in 1..Len(ts) |-> Row(ts[k])])
VARIABLE x
Init == x = 0
Next == UNCHANGED x
=============================================================================
