-------------------------------- MODULE Retry --------------------------------
(***************************************************************************)
(* C17  Retry, back-off, jitter and circuit breaker keep their contracts.   *)
(*                                                                         *)
(* Three sequential components of leader/retry.go, each specified by the   *)
(* behaviour the statement requires (the Expect operators), enumerated by TLC  *)
(* (RetryGen.tla), executed on the real functions under testing/synctest   *)
(* (virtual time, scripted operation) and judged by RetryCheck.tla.        *)
(*                                                                         *)
(*  - RetryWithBackoff: scenario = MaxAttempts, outcome of the k-th call,  *)
(*    cancellation point, optional breaker threshold.                      *)
(*  - CircuitBreaker: scenario = threshold, sequence of <<gap, outcome>>   *)
(*    with gaps on the lattice {0, C-1, C, C+1} around the cool-down C.    *)
(*  - CalculateBackoff: window [b(1-J), b(1+J)], b = min(Max, Init*M^n),   *)
(*    never negative; integers are milliseconds x 100 (saturating).        *)
(***************************************************************************)
EXTENDS Integers, Sequences, FiniteSets, TLC, Json, IOUtils, SequencesExt

CONSTANTS MaxOuts, MaxBreakerLen

Outcomes == {"ok", "trans", "perm"}
SeqsUpTo(S, n) == UNION {[1..k -> S] : k \in 0..n}
Out(outs, k) == IF k <= Len(outs) THEN outs[k] ELSE "ok"       \* after the scripted prefix the operation succeeds

\* ---------------- circuit breaker: required behaviour ----------------
\* state: [st: "closed"|"open", fails, sinceFail]  sinceFail = time since the last failure (only meaningful when fails > 0)
B0 == [st |-> "closed", fails |-> 0, since |-> 0]
\* one call arriving gap after the previous call, cool-down C, threshold thr, operation outcome o ("ok" / other)
\* returns [b: new state, invoked: BOOLEAN, res: "ok" | "err" | "open"]
BreakerStep(b, gap, C, thr, o) ==
  LET since == b.since + gap IN
  IF b.st = "open" /\ since < C
  THEN [b |-> [b EXCEPT !.since = since], invoked |-> FALSE, res |-> "open"]
  ELSE IF o = "ok"
       THEN [b |-> [st |-> "closed", fails |-> 0, since |-> 0], invoked |-> TRUE, res |-> "ok"]
       ELSE LET f == b.fails + 1 IN
            [b |-> [st |-> IF f >= thr THEN "open" ELSE b.st, fails |-> f, since |-> 0], invoked |-> TRUE, res |-> "err"]

RECURSIVE BreakerRun(_, _, _, _)
BreakerRun(b, C, thr, calls) ==      \* calls: sequence of <<gap, outcome>>
  IF calls = <<>> THEN <<>>
  ELSE LET r == BreakerStep(b, Head(calls)[1], C, thr, Head(calls)[2]) IN
       <<[invoked |-> r.invoked, res |-> r.res]>> \o BreakerRun(r.b, C, thr, Tail(calls))

Gaps == {"0", "C-1", "C", "C+1"}
GapVal(g, C) == IF g = "0" THEN 0 ELSE IF g = "C-1" THEN C - 1 ELSE IF g = "C" THEN C ELSE C + 1
BreakerScenarios == {[thr |-> thr, calls |-> cs] : thr \in 1..3, cs \in SeqsUpTo(Gaps \X {"ok", "fail"}, MaxBreakerLen)}
ExpectBreaker(s) == BreakerRun(B0, 1000, s.thr, [k \in 1..Len(s.calls) |-> <<GapVal(s.calls[k][1], 1000), s.calls[k][2]>>])

\* ---------------- RetryWithBackoff: required behaviour ----------------
\* scenario: [max, outs, cancel: <<"none",0>> | <<"before",0>> | <<"wait",k>>, thr (0: no breaker)]
\* result: [calls: number of invocations of the operation, res: "nil" | "perm" | "max" | "ctx" | "open"]
RECURSIVE RetryRun(_, _, _, _)
RetryRun(s, attempt, calls, b) ==
  \* attempt = number of back-off waits done so far; calls = invocations so far; b = breaker state (gaps irrelevant: long cool-down)
  IF s.cancel = <<"before", 0>> /\ attempt = 0 THEN [calls |-> 0, res |-> "ctx"]
  ELSE
  LET useB == s.thr > 0
      br == IF useB THEN BreakerStep(b, 0, 1000000, s.thr, IF Out(s.outs, calls + 1) = "ok" THEN "ok" ELSE "fail")
            ELSE [b |-> b, invoked |-> TRUE, res |-> "x"]
      invoked == br.invoked
      o == IF invoked THEN Out(s.outs, calls + 1) ELSE "open"
      c2 == IF invoked THEN calls + 1 ELSE calls
  IN IF o = "open" THEN [calls |-> c2, res |-> "open"]
     ELSE IF o = "ok" THEN [calls |-> c2, res |-> "nil"]
     ELSE IF o = "perm" THEN [calls |-> c2, res |-> "perm"]
     ELSE IF s.max > 0 /\ attempt >= s.max - 1 THEN [calls |-> c2, res |-> "max"]
     ELSE IF s.cancel = <<"wait", attempt + 1>> THEN [calls |-> c2, res |-> "ctx"]
     ELSE RetryRun(s, attempt + 1, c2, br.b)

Cancels == {<<"none", 0>>, <<"before", 0>>} \cup {<<"wait", k>> : k \in 1..3}
RetryScenarios == {[max |-> m, outs |-> os, cancel |-> c, thr |-> thr] :
                     m \in 0..4, os \in SeqsUpTo(Outcomes, MaxOuts), c \in Cancels, thr \in {0, 2}}
ExpectRetry(s) == RetryRun(s, 0, 0, B0)

\* "at most MaxAttempts invocations", "never after success / permanent error / cancellation": follow from ExpectRetry;
\* stated once more as a design-level sanity check of the expectation itself
ExpectSane == \A s \in RetryScenarios :
  LET r == ExpectRetry(s) IN
  /\ (s.max > 0 => r.calls <= s.max)
  /\ (r.res = "nil" => Out(s.outs, r.calls) = "ok")
  /\ (r.res = "perm" => Out(s.outs, r.calls) = "perm")
  /\ (\A k \in 1..(r.calls - 1) : Out(s.outs, k) = "trans")

\* ---------------- CalculateBackoff: window ----------------
\* values in 1/100 ms; mult = num/den; saturating recursion (stops as soon as the cap is reached)
RECURSIVE SatPow(_, _, _, _, _)
SatPow(v, num, den, n, cap) ==
  IF n = 0 \/ v >= cap \/ v = 0 \/ num = den THEN (IF v > cap THEN cap ELSE v)
  ELSE SatPow((v * num) \div den, num, den, n - 1, cap)
\* r: [init_ms, max_ms, num, den, jit_pct, n, result_us, isneg]
BackoffOK(r) ==
  LET b == SatPow(r.init_ms * 100, r.num, r.den, IF r.n > 64 THEN 64 ELSE r.n, r.max_ms * 100)       \* 1/100 ms; 64 doublings saturate any cap used
      res == r.result_us \div 10                                                                    \* 1/100 ms
      tol == 100 + (b \div 100)                                                                     \* 1 ms + 1 % for integer rounding of the recursion
      lo == b - (b * r.jit_pct) \div 100 - tol
      hi == b + (b * r.jit_pct) \div 100 + tol
  IN ~r.isneg /\ res >= lo /\ res <= hi
=============================================================================
