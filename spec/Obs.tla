-------------------------------- MODULE Obs --------------------------------
(***************************************************************************)
(* Observable state of an execution and its deterministic update from one  *)
(* trace event.  Apply(o, e) returns the next observable state and the set *)
(* of property clauses (Props.tla) that are false at this step.  Only what *)
(* the real code did (store log, metrics callbacks, user callbacks, API    *)
(* returns, snapshots at quiescent points) enters this state; nothing here *)
(* knows how the library is implemented.                                   *)
(***************************************************************************)
EXTENDS Props, Sequences, TLC

Ids  == {"A", "B", "C", "D", "E"}
Keys == {"g", "g2"}

NoCfg == [prio |-> 0, tk |-> FALSE, hn |-> -1, conn |-> FALSE, grace |-> 5000000, vi |-> 5000000,
          group |-> "g", h |-> 1000000, ttl |-> 3000000, cb |-> TRUE, ddur |-> 0]
NoStop == [open |-> FALSE, variant |-> "stop", del |-> FALSE, wait |-> FALSE, bound |-> 0, at |-> 0,
           owner |-> FALSE, late |-> FALSE, hadClaim |-> FALSE, checked |-> FALSE, checkedOp |-> 0, checkRespAt |-> -1]

I0 == [present |-> FALSE, cfg |-> NoCfg,
       started |-> FALSE, stopped |-> FALSE, stopping |-> 0, part |-> FALSE, ready |-> FALSE,
       claim |-> FALSE, ttok |-> 0, trev |-> 0, revOK |-> TRUE,
       acqTok |-> 0, acqRev |-> 0, acqFresh |-> FALSE,
       np |-> 0, nd |-> 0, ndRise |-> 0, term |-> 0, ctxOpen |-> {}, termLive |-> FALSE,
       lastTo |-> "INIT",
       lostAt |-> -1, lostCause |-> "", lostOutside |-> FALSE, lostHb |-> 0,
       failRun |-> 0, failT |-> -1, okStart |-> -1, hskip |-> FALSE,
       consecU |-> 0, hdue |-> FALSE,
       lastDisc |-> -1, graceDue |-> -1, verify |-> "none", verifyOwn |-> TRUE,
       vc |-> {}, st |-> NoStop, halted |-> FALSE,
       burst |-> 0, burstT |-> -1,
       preSince |-> -1,
       inflight |-> {}, lastEv |-> "", note |-> "", why |-> "", readyAt |-> -1, owes |-> FALSE, cut |-> FALSE, hung |-> {}, verifyAt |-> -1, nbo |-> 0, nrs |-> 0, rnds |-> {}, appCancel |-> FALSE, hpend |-> FALSE, lastReconn |-> -1, servedSince |-> 0, hadLid |-> FALSE, reconnAt |-> -1,
       preStart |-> [started |-> FALSE, stopped |-> FALSE, halted |-> FALSE, lastTo |-> "", ready |-> FALSE, graceDue |-> -1, appCancel |-> FALSE]]

O0 == [scn |-> "", ended |-> TRUE, H |-> 1000000, TTL |-> 3000000, L |-> 0, PT |-> 5000000,
       rec |-> [k \in Keys |-> NoRec], tokens |-> {}, pend |-> {},
       I |-> [i \in Ids |-> I0],
       faulty |-> FALSE, slow |-> FALSE, outside |-> FALSE, tk |-> FALSE, hc |-> FALSE, conn |-> FALSE,
       connEv |-> FALSE, stopSeen |-> FALSE, badval |-> FALSE, unhealthy |-> FALSE, hard |-> FALSE,
       vacSince |-> [k \in Keys |-> -1], recSince |-> [k \in Keys |-> 0], W |-> 0,
       now |-> 0]

V(p, c, i, e) == [p |-> p, c |-> c, i |-> i, seq |-> e.seq, t |-> e.t]
R(o, v) == [o |-> o, v |-> v]

Claims(o, k) == {i \in Ids : o.I[i].present /\ o.I[i].claim /\ o.I[i].cfg.group = k}
Own(o, i) == LET r == o.rec[o.I[i].cfg.group] IN o.I[i].claim /\ ClaimBacked(i, r, o.I[i].ttok)

\* the assumptions of C02 hold so far: responsive store, no injected fault, no outside writer,
\* no preemption configured
\* context suffix of C02 clauses: unhealthy ticks skip the refresh (known finding, see DESIGN.md)
Ctx(o) == IF o.unhealthy THEN ":after_unhealthy_ticks_skipped_refresh" ELSE ""
\* ... narrowed to the instance concerned: it has skipped refreshes on unhealthy ticks since its last successful one
CtxI(o, i) == IF o.I[i].hskip THEN ":after_unhealthy_ticks_skipped_refresh" ELSE ""
CtxAny(o, k) == IF \E j \in Ids : o.I[j].present /\ o.I[j].claim /\ o.I[j].cfg.group = k /\ o.I[j].hskip
                THEN ":after_unhealthy_ticks_skipped_refresh" ELSE ""
Calm(o)  == ~o.faulty /\ ~o.slow /\ ~o.outside /\ ~o.tk
\* additionally those of C07
Quiet(o) == Calm(o) /\ ~o.hc /\ ~o.connEv

\* a candidate of C06: a started, non-stopped follower with an established watch that can reach the store
Cand(o, i) == LET x == o.I[i] IN x.present /\ x.started /\ ~x.halted /\ ~x.part /\ x.ready /\ x.hung = {} /\ ~x.claim

SetI(o, i, x) == [o EXCEPT !.I[i] = x]

(***************************************************************************)
(* time passes to t: deadline clauses                                      *)
(***************************************************************************)
TickInst(o, i, e) ==
  LET x == o.I[i]
      t == e.t
      h == x.cfg.h
      dep == x.lostAt >= 0 /\ ~x.cut /\ t > DeposedDeadline(x.lostAt, h)
      cut == x.claim /\ x.failRun >= 1 /\ x.okStart >= 0 /\ ~x.hskip /\ t > CutOffDeadline(x.okStart, h)
      pre == x.preSince >= 0 /\ t > PreemptDeadline(x.preSince, o.H) + o.W + 6 * o.L     \* (late notifications delay the takeover by as much)
      \* C10 promptness: a ready, served, takeover-enabled candidate next to a claiming leader whose stored priority is strictly
      \* lower, in fault-free conditions (no fault, no outside writer, latency bound <= H/10) - armed when that begins to hold
      rk == o.rec[x.cfg.group]
      \* (the leader has no health checker: one that has may skip refreshes and step down by itself)
      canPre == /\ x.cfg.tk /\ Cand(o, i) /\ ~o.faulty /\ ~o.hard /\ ~o.outside /\ 10 * o.L <= o.H
                /\ rk.live /\ rk.cls = "payload" /\ rk.id \in Ids /\ rk.id # i /\ x.cfg.prio > rk.prio
                /\ o.I[rk.id].cfg.hn < 0
                /\ o.I[rk.id].claim /\ o.I[rk.id].ttok = rk.tok
                /\ (\A op \in o.pend : op.i = i => t - op.at <= 2 * o.L + 1000)
      gr  == x.graceDue >= 0 /\ t > x.graceDue
      rv  == x.reconnAt >= 0 /\ x.claim /\ x.stopping = 0 /\ t > x.reconnAt + 100000 + 50000
      sl  == x.st.open /\ ~x.st.late /\ t > x.st.at + x.st.bound + 4 * o.L + 1000
      T == OpTimeout(h)
      tmo == {q \in o.pend : q.i = i /\ q.kind = "update" /\ ~q.to /\ q.tok = x.ttok /\ x.claim /\ t - q.at >= T}
      v == (IF dep THEN {V("C03", "deposed_not_demoted_in_time:" \o x.lostCause \o CtxI(o, i), i, e)} \cup
                        (IF x.lostOutside THEN {V("C13", "tampered_leader_not_demoted", i, e)} ELSE {}) ELSE {})
           \cup (IF cut THEN {V("C03", "cut_off_not_demoted_in_time", i, e)} ELSE {})
           \cup (IF pre THEN {V("C10", "higher_priority_not_leader_within_3H", i, e)} ELSE {})
           \cup (IF gr /\ x.claim THEN {V("C11", "grace_elapsed_not_demoted", i, e)} ELSE {})
           \cup (IF sl THEN {V("C09", "stop_not_returned_in_time", i, e)} ELSE {})
           \cup (IF rv THEN {V("C11", "no_fresh_read_after_reconnect_notification", i, e)} ELSE {})
      y == [x EXCEPT !.lostAt = IF dep THEN -1 ELSE @,
                     !.okStart = IF cut THEN -1 ELSE @,
                     !.preSince = IF pre \/ ~canPre THEN -1 ELSE IF @ >= 0 THEN @ ELSE t,
                     !.graceDue = IF gr THEN -1 ELSE @,
                     !.reconnAt = IF rv \/ ~x.claim THEN -1 ELSE @,
                     !.st.late = @ \/ sl,
                     !.failRun = @ + Cardinality(tmo),
                     !.failT = IF tmo # {} THEN t ELSE @,
                     !.burst = IF t # x.burstT THEN 0 ELSE @,
                     !.burstT = t]
  IN R(y, v)

Tick(o, e) ==
  IF e.t < 0 \/ o.ended THEN R(o, {})
  ELSE
  LET t == e.t
      rs == [i \in Ids |-> IF o.I[i].present THEN TickInst(o, i, e) ELSE R(o.I[i], {})]
      slow == \E op \in o.pend : 2 * (t - op.at) >= o.H
      vac == {k \in Keys : o.vacSince[k] >= 0 /\ t > VacancyDeadline(o.vacSince[k], o.L)}
      \* a candidate must still be there when the bound expires (one that stopped meanwhile owes nothing)
      \* ... and the store must be answering it: a candidate with an operation outstanding for longer than the
      \* configured latency is not served by a responsive store at the moment
      Served(i) == \A op \in o.pend : op.i = i => t - op.at <= 2 * o.L + 1000
      vv == {V("C06", "vacancy_not_filled_in_time", "env", e) :
                k \in {k2 \in vac : \E i \in Ids : Cand(o, i) /\ o.I[i].cfg.group = k2 /\ Served(i)}}
      T(q) == OpTimeout(o.I[q.i].cfg.h)
      pend2 == {IF q.i \in Ids /\ q.kind = "update" /\ ~q.to /\ t - q.at >= T(q) THEN [q EXCEPT !.to = TRUE] ELSE q : q \in o.pend}
  IN R([o EXCEPT !.I = [i \in Ids |-> rs[i].o], !.slow = @ \/ slow, !.now = t, !.pend = pend2,
                 !.vacSince = [k \in Keys |-> IF k \in vac THEN -1 ELSE @[k]]],
       UNION {rs[i].v : i \in Ids} \cup vv)

(***************************************************************************)
(* record changes                                                          *)
(***************************************************************************)
\* the record of key k changes from p to n at event e by writer w ("outside", "expire" or an instance)
\* -> instances that lose their record get a C03 clock; vacancy clock of C06; open validation calls
RecChanged(o, k, n, w, cause, e) ==
  LET p == o.rec[k]
      o1 == [o EXCEPT !.rec[k] = n,
                      !.tokens = IF n.live /\ n.tok # 0 THEN @ \cup {n.tok} ELSE @]
      lose(i) == LET x == o.I[i] IN
                 x.present /\ x.cfg.group = k /\ x.claim /\ p.live /\ p.id = i /\ p.tok = x.ttok
                 /\ ~(n.live /\ n.id = i /\ n.tok = x.ttok) /\ x.lostAt < 0
      I1 == [i \in Ids |->
               LET x == o1.I[i] IN
               IF lose(i) THEN [x EXCEPT !.lostAt = e.t, !.lostCause = cause, !.lostOutside = (w = "outside"), !.lostHb = 0]
               ELSE x]
      \* validation calls in progress: did the record show the caller as owner at this moment?
      I2 == [i \in Ids |->
               LET x == I1[i] IN
               IF x.vc # {} /\ x.cfg.group = k /\ x.claim
               THEN [x EXCEPT !.vc = {IF ClaimBacked(i, n, x.ttok) THEN [c EXCEPT !.saw = TRUE] ELSE c : c \in @}]
               ELSE x]
      becameVacant == p.live /\ ~n.live
      o2 == [o1 EXCEPT !.I = I2]
      anyCand == \E i \in Ids : Cand(o2, i) /\ o2.I[i].cfg.group = k /\ i # w
      o3 == [o2 EXCEPT !.vacSince[k] = IF n.live THEN -1
                                       ELSE IF becameVacant /\ anyCand THEN e.t ELSE @,
                       !.recSince[k] = IF n.live # p.live \/ n.id # p.id THEN e.t ELSE @]
      v == IF Calm(o) THEN {V("C02", "record_lost_while_claiming:" \o cause \o CtxI(o, i), i, e) : i \in {j \in Ids : lose(j)}} ELSE {}
      v7 == IF Quiet(o) THEN {V("C07", "record_of_leader_lapsed_or_changed_owner:" \o cause, i, e) : i \in {j \in Ids : lose(j)}} ELSE {}
  IN R(o3, v \cup v7)

MkRec(e, w) == [live |-> TRUE, id |-> e.id, tok |-> e.tok, prio |-> e.prio, cls |-> e.cls,
                rev |-> e.rev, writer |-> w, at |-> e.t]
Tomb(e, w) == [NoRec EXCEPT !.rev = e.rev, !.writer = w, !.at = e.t]

\* re-arm the vacancy clock after a fault ends (candidates must not give up permanently)
Rearm(o, t) == [o EXCEPT !.vacSince = [k \in Keys |->
                   IF ~o.rec[k].live /\ (\E i \in Ids : Cand(o, i) /\ o.I[i].cfg.group = k)
                   THEN PMax(@[k], t) ELSE @[k]]]

(***************************************************************************)
(* event handlers                                                          *)
(***************************************************************************)
H_reset(o, e) ==
  LET ids == {e.ids[n] : n \in 1..Len(e.ids)}
      mk(i) == IF i \in ids THEN [I0 EXCEPT !.present = TRUE, !.cfg = e.insts[i]] ELSE I0
  IN R([O0 EXCEPT !.scn = e.name, !.ended = FALSE, !.H = e.h, !.TTL = e.ttl, !.L = e.lat_max, !.W = e.watch_max, !.PT = e.ptimeout,
                  !.I = [i \in Ids |-> mk(i)],
                  !.tk = \E i \in ids : e.insts[i].tk,
                  !.hc = \E i \in ids : e.insts[i].hn >= 0,
                  !.conn = \E i \in ids : e.insts[i].conn], {})

H_start_call(o, e) ==
  LET x == o.I[e.i] IN
  R(SetI(o, e.i, [x EXCEPT !.started = TRUE, !.stopped = FALSE, !.halted = FALSE, !.lastTo = "CANDIDATE", !.ready = FALSE, !.graceDue = -1, !.appCancel = FALSE,
                            !.preStart = [started |-> x.started, stopped |-> x.stopped, halted |-> x.halted, lastTo |-> x.lastTo, ready |-> x.ready,
                                          graceDue |-> x.graceDue, appCancel |-> x.appCancel]]), {})

\* a Start call that is refused (already started, connection monitor not restartable, ...) changes nothing: the instance is
\* what it was before the call (in particular STOPPED after a stop)
H_start_ret(o, e) ==
  LET x == o.I[e.i] p == x.preStart IN
  IF e.ok THEN R(o, {})
  ELSE R(SetI(o, e.i, [x EXCEPT !.started = p.started, !.stopped = p.stopped, !.halted = p.halted, !.lastTo = p.lastTo, !.ready = p.ready,
                                 !.graceDue = p.graceDue, !.appCancel = p.appCancel]), {})

H_stop_call(o, e) ==
  LET x == o.I[e.i]
      r == o.rec[x.cfg.group]
      tmo == IF e.variant = "stop" THEN 0
             ELSE IF e.timeout > 0 THEN e.timeout ELSE IF e.ctx > 0 THEN e.ctx ELSE 5000000
      st == [open |-> TRUE, variant |-> e.variant, del |-> e.del, wait |-> e.wait,
             bound |-> StopBound(e.variant, tmo, x.cfg.ddur, e.wait), at |-> e.t,
             owner |-> x.claim /\ ClaimBacked(e.i, r, x.ttok) /\ r.writer = e.i, late |-> FALSE, hadClaim |-> x.claim, checked |-> FALSE, checkedOp |-> 0, checkRespAt |-> -1]
  IN R([SetI(o, e.i, [x EXCEPT !.stopping = @ + 1, !.st = st, !.halted = TRUE, !.ready = FALSE, !.graceDue = -1, !.owes = @ \/ (x.claim /\ x.cfg.cb)]) EXCEPT !.stopSeen = TRUE], {})

H_stop_ret(o, e) ==
  LET x == o.I[e.i]
      r == o.rec[x.cfg.group]
      good == e.ok
      v1 == IF good /\ x.st.open /\ x.st.variant = "ctx" /\ x.st.del /\ x.st.owner /\ r.live /\ r.writer = e.i /\ ~x.cut /\ ~x.part
            THEN {V("C09", "record_not_deleted_at_return", e.i, e)} ELSE {}
      v2 == IF x.st.open /\ ~x.st.late /\ e.t > x.st.at + x.st.bound + 4 * o.L + 1000
            THEN {V("C09", "stop_returned_late", e.i, e)} ELSE {}
      v3 == IF good /\ x.claim THEN {V("C09", "reports_leadership_when_stop_returns", e.i, e)} ELSE {}
      infl == {op.op : op \in {q \in o.pend : q.i = e.i}}
      y == [x EXCEPT !.stopping = IF @ > 0 THEN @ - 1 ELSE 0, !.st = [x.st EXCEPT !.open = FALSE],
                     !.stopped = IF good THEN TRUE ELSE @, !.inflight = IF good THEN infl ELSE @,
                     !.ready = IF good THEN FALSE ELSE @]
  IN R(SetI(o, e.i, y), v1 \cup v2 \cup v3)

H_op_issue(o, e) ==
  LET x == o.I[e.i]
      op == [op |-> e.op, i |-> e.i, kind |-> e.kind, key |-> e.key, exp |-> e.exp, id |-> e.id,
             tok |-> e.tok, prio |-> e.prio, cls |-> e.cls, at |-> e.t, src |-> e.src, to |-> FALSE, ins |-> x.stopping > 0,
             \* own: the read was answered from a record showing this instance's current term (set when it is applied);
             \* vfy: a read of a reconnect verification (its Get, or the validateToken read issued at the instant that Get returned)
             own |-> FALSE, vfy |-> e.kind = "get" /\ (e.src = "verify" \/ (e.src = "validate" /\ e.t = x.verifyAt))]
      \* (the owner check and the Delete of a StopWithContext{DeleteKey} call that is still in progress belong to that call,
      \*  also when another, overlapping stop call of the same instance has returned in the meantime)
      v1 == IF x.stopped /\ ~(x.stopping > 0 /\ e.src = "stop") THEN {V("C09", "store_operation_after_stop_returned", e.i, e)} ELSE {}
      v2 == IF x.burst + 1 > 40 THEN {V("C13", "unbounded_operations_in_one_instant", e.i, e)} ELSE {}
      v3 == IF e.key # x.cfg.group THEN {V("C01", "operation_on_foreign_key", e.i, e)} ELSE {}
      v4 == IF e.depth > 2 THEN {V("C13", "unbounded_recursion_of_acquisition", e.i, e)} ELSE {}
      \* C17: the Creates of one acquisition round (identified by its goroutine): at most four, separated by the back-off
      \* (first back-off 50 ms - 10 %)
      isRnd == e.kind = "create" /\ e.round > 0
      old == {r \in x.rnds : r.g = e.round}
      prev == IF old = {} THEN [g |-> e.round, n |-> 0, last |-> -1, noteT |-> -1, noteVal |-> 0] ELSE CHOOSE r \in old : TRUE
      v5 == IF isRnd /\ prev.n + 1 > 4 THEN {V("C17", "round_issues_more_than_four_creates", e.i, e)} ELSE {}
      v6 == IF isRnd /\ prev.last >= 0 /\ e.t - prev.last < 45000 THEN {V("C17", "round_attempts_not_separated_by_backoff", e.i, e)} ELSE {}
      \* ... and each Create follows the wait the round chose before it (jitter or back-off, nanoseconds in the note) by that wait
      v7 == IF isRnd /\ prev.noteT >= 0 /\ 1000 * (e.t - prev.noteT) < prev.noteVal - 1000000
            THEN {V("C17", "round_waits_less_than_the_wait_it_chose", e.i, e)} ELSE {}
      \* first refresh attempt issued after the record was lost (C03)
      y == [x EXCEPT !.burst = @ + 1,
                     !.rnds = IF isRnd THEN (@ \ old) \cup {[g |-> e.round, n |-> prev.n + 1, last |-> e.t, noteT |-> -1, noteVal |-> 0]} ELSE @,
                     !.reconnAt = IF e.kind = "get" /\ e.src = "verify" THEN -1 ELSE @,
                     !.lostHb = IF x.lostAt >= 0 /\ @ = 0 /\ e.kind = "update" THEN e.op ELSE @]
  IN R([SetI(o, e.i, y) EXCEPT !.pend = @ \cup {op}], v1 \cup v2 \cup v3 \cup v4 \cup v5 \cup v6 \cup v7)

\* a successful mutation by instance w
H_mutation(o, e) ==
  LET w == e.i
      x == o.I[w]
      k == e.key
      p == o.rec[k]
      m == [kind |-> e.kind, id |-> e.id, tok |-> e.tok, key |-> k]
      \* "during its own graceful shutdown": the operation was issued inside a stop call of the writer
      inStop == x.stopping > 0 \/ \E q \in o.pend : q.op = e.op /\ q.ins
      legit == LegitMutation(m, p, w, x.cfg.tk, x.cfg.prio, inStop)
      foreign == p.live /\ p.writer # w
      \* the known residual race: the owner check of this stop call read the instance's own record, which was replaced before the Delete
      \* (the Delete follows the answer of the owner check at once: issued at the instant that answer arrived; a Delete that
      \*  relies on an older owner check is a different matter)
      fresh == \E q \in o.pend : q.op = e.op /\ q.at = x.st.checkRespAt
      how == IF e.kind = "delete" /\ x.st.hadClaim /\ x.st.checked /\ fresh THEN ":replaced_between_owner_check_and_delete"
             ELSE IF e.kind = "delete" /\ x.st.hadClaim /\ x.st.checked THEN ":owner_check_not_fresh_at_delete"
             ELSE IF e.kind = "delete" /\ x.st.hadClaim THEN ":without_owner_check_showing_own_record" ELSE ""
      v1 == IF ~legit THEN {V("C01", "illegitimate_" \o e.kind \o (IF foreign THEN "_of_foreign_record" ELSE "_of_own_record") \o how, w, e)} ELSE {}
      v1b == IF ~legit /\ e.kind = "update" /\ foreign /\ p.writer # "outside"
             THEN {V("C10", "replacement_without_strictly_higher_priority", w, e)} ELSE {}
      \* C13: leadership is not taken from a live record an outside party wrote other than by legitimate preemption (the
      \* priority comparison holds against the very version that is overwritten)
      v1c == IF ~legit /\ e.kind = "update" /\ foreign /\ p.writer = "outside"
             THEN {V("C13", "outside_record_overwritten_without_legitimate_preemption", w, e)} ELSE {}
      v2 == IF k # x.cfg.group THEN {V("C01", "mutation_of_foreign_group", w, e)} ELSE {}
      \* C10 compares a candidate's priority with "the priority stored in the record": every version an instance writes carries
      \* the priority of its configuration (a refresh that publishes another one invites an illegitimate preemption: C07)
      vp == IF e.kind \in {"create", "update"} /\ e.cls = "payload" /\ e.prio # x.cfg.prio
            THEN {V("C10", "record_priority_differs_from_configured_priority", w, e), V("C07", "record_priority_differs_from_configured_priority", w, e)} ELSE {}
      acquisition == e.kind \in {"create", "update"} /\ ~(p.live /\ p.writer = w /\ p.tok = e.tok)
      v3 == IF acquisition /\ ~FreshToken(e.tok, o.tokens)
            THEN {V("C05", "acquisition_token_not_fresh", w, e)} ELSE {}
      v4 == IF e.kind = "update" /\ p.live /\ p.writer = w /\ x.claim /\ (e.tok # x.ttok \/ e.id # w)
            THEN {V("C05", "refresh_changes_token_or_identity", w, e)} ELSE {}
      n == IF e.kind = "delete" THEN Tomb(e, w) ELSE MkRec(e, w)
      r1 == RecChanged(o, k, n, w, (IF e.kind = "delete" THEN "deleted" ELSE "replaced"), e)
  IN R(r1.o, r1.v \cup v1 \cup v1b \cup v1c \cup v2 \cup v3 \cup v4 \cup vp)

H_op_apply(o, e) ==
  LET o0 == IF e.lost THEN [o EXCEPT !.faulty = TRUE, !.hard = TRUE, !.I[e.i].cut = TRUE] ELSE o
      x == o0.I[e.i]
      \* a read issued inside a stop call that shows the stopping instance as owner (the owner check of DeleteKey)
      ownRead == e.kind = "get" /\ e.ok /\ x.st.open /\ e.cls = "payload" /\ e.id = e.i /\ e.tok = x.ttok
                 /\ \E q \in o0.pend : q.op = e.op /\ q.ins
      o1a == IF ownRead THEN [o0 EXCEPT !.I[e.i].st.checked = TRUE, !.I[e.i].st.checkedOp = e.op] ELSE o0
      showsOwn == e.kind = "get" /\ e.ok /\ e.cls = "payload" /\ e.id = e.i /\ e.tok = x.ttok
      o1 == [o1a EXCEPT !.pend = {IF q.op = e.op THEN [q EXCEPT !.own = showsOwn] ELSE q : q \in @}] IN
  IF e.ok /\ e.kind \in {"create", "update", "delete"} THEN H_mutation(o1, e)
  ELSE R(o1, {})

H_op_fault(o, e) ==
  R(Rearm([o EXCEPT !.faulty = TRUE, !.hard = TRUE, !.I[e.i].cut = TRUE,
                    !.I[e.i].hung = IF e.ev = "op_hang" THEN @ \cup {e.op} ELSE @], e.t + o.PT), {})

H_op_resp(o, e) ==
  LET x == o.I[e.i]
      o0 == [o EXCEPT !.pend = {q \in @ : q.op # e.op}]
      q == CHOOSE q \in o.pend : q.op = e.op
      known == \E q2 \in o.pend : q2.op = e.op
      T == OpTimeout(x.cfg.h)
      timely == e.lat < T
      isAcq == known /\ e.ok /\ e.kind \in {"create", "update"} /\ (e.kind = "create" \/ q.src = "takeover" \/ q.tok # x.ttok)
      isRefresh == known /\ e.kind = "update" /\ ~isAcq
      y1 == IF isAcq THEN [x EXCEPT !.acqTok = q.tok, !.acqRev = e.rev, !.acqFresh = TRUE]
            ELSE IF isRefresh /\ e.ok /\ timely /\ x.claim
                 THEN [x EXCEPT !.trev = e.rev, !.okStart = q.at, !.failRun = 0, !.hskip = FALSE]
            ELSE IF isRefresh /\ e.ok /\ ~timely THEN [x EXCEPT !.revOK = FALSE]
            ELSE IF isRefresh /\ ~e.ok /\ timely /\ x.claim THEN [x EXCEPT !.failRun = @ + 1, !.failT = e.t]
            ELSE x
      \* ready: the instance has been through the set-up of its watch loop. A Watch call that fails is a transient store
      \* failure like any other (C06: "after transient store or watch failures cease the same bound applies again"): the
      \* instance stays a candidate, the bound is re-armed by the fault
      y2 == IF e.kind = "watch" THEN [y1 EXCEPT !.ready = ~x.halted, !.readyAt = e.t] ELSE y1
      \* reconnect verification reads
      \* reads of a reconnect verification: the Get of verifyLeadershipAfterReconnect and the validateToken read it issues
      \* at the instant that Get returns (several verifications may overlap)
      \* (the verification gives its reads two seconds: an answer later than that reaches nobody)
      isV1 == known /\ e.kind = "get" /\ q.src = "verify" /\ e.t - q.at <= 2000000
      isV2 == known /\ e.kind = "get" /\ q.src = "validate" /\ q.vfy /\ e.t - q.at <= 2000000
      vown == e.ok /\ q.own        \* what the read returned (not what the store holds when the answer arrives)
      y3 == IF isV1 THEN [y2 EXCEPT !.verifyAt = e.t, !.verifyOwn = vown, !.verify = IF vown \/ ~x.claim THEN @ ELSE "failed"]
            \* the validateToken read decides the verification: showing ownership it also overrides the connection-test read before it
            ELSE IF isV2 THEN [y2 EXCEPT !.verifyOwn = vown, !.verify = IF vown THEN "none" ELSE IF ~x.claim THEN @ ELSE "failed"]
            ELSE y2
      y4 == [y3 EXCEPT !.inflight = @ \ {e.op}, !.hung = @ \ {e.op},
                       !.st.checkRespAt = IF x.st.checked /\ x.st.checkedOp = e.op THEN e.t ELSE @]
      lostResp == e.lost \/ (~e.ok /\ e.err \in {"timeout", "connclosed", "noresponders"})
      o1 == SetI(o0, e.i, y4)
      o2 == IF lostResp THEN Rearm([o1 EXCEPT !.faulty = TRUE, !.hard = TRUE, !.I[e.i].cut = TRUE], e.t) ELSE o1
      \* an operation that took much longer than the configured latency: the store was not responsive for this
      \* instance until now; the vacancy bound counts from here (C06 "plus operation latencies")
      o3 == IF e.lat > 2 * o.L + 1000 THEN Rearm([o2 EXCEPT !.I[e.i].servedSince = e.t], e.t) ELSE o2
  IN R(o3, {})

H_w_deliver(o, e) == R(o, {})
H_w_drop(o, e) == R(Rearm([o EXCEPT !.faulty = TRUE], e.t), {})

H_expire(o, e) ==
  IF e.tomb \/ ~o.rec[e.key].live \/ o.rec[e.key].rev # e.rev THEN R(o, {})
  ELSE RecChanged(o, e.key, NoRec, "expire", "expired", e)

H_out_put(o, e) ==
  LET o1 == [o EXCEPT !.outside = TRUE, !.hard = TRUE, !.badval = @ \/ e.cls # "payload"] IN
  RecChanged(o1, e.key, MkRec(e, "outside"), "outside", "replaced", e)
H_out_del(o, e) ==
  RecChanged([o EXCEPT !.outside = TRUE, !.hard = TRUE], e.key, Tomb(e, "outside"), "outside", "deleted", e)

\* the claim flag of instance i changes to b (metrics callback inside the critical section, or snapshot)
ClaimEdge(o, i, b, e) ==
  LET x == o.I[i]
      k == x.cfg.group
      r == o.rec[k]
      rising == b /\ ~x.claim
      falling == ~b /\ x.claim
      inStop == x.stopping > 0
      inVod == \E c \in x.vc : c.call = "vod"
      y == IF rising
           THEN [x EXCEPT !.claim = TRUE, !.ttok = x.acqTok, !.trev = x.acqRev, !.acqFresh = FALSE, !.revOK = TRUE,
                          !.consecU = 0, !.hdue = FALSE, !.failRun = 0, !.okStart = e.t, !.hskip = FALSE,
                          !.lostAt = -1, !.termLive = TRUE, !.ndRise = x.nd, !.preSince = -1, !.note = "", !.cut = x.part,
                          !.vc = {IF ClaimBacked(i, r, x.acqTok) THEN [c EXCEPT !.saw = TRUE] ELSE c : c \in @},
                          !.verify = "none", !.verifyAt = -1]
           ELSE IF falling
           THEN [x EXCEPT !.claim = FALSE, !.termLive = FALSE, !.hdue = FALSE, !.why = x.note, !.note = "",
                          !.verify = "none",
                          !.lostAt = IF x.cfg.cb /\ ~inStop THEN @ ELSE -1]
           ELSE x
      o1 == SetI(o, i, y)
      vr == IF rising
            THEN (IF ~x.acqFresh THEN {V("C13", "claim_without_own_successful_acquisition", i, e)} ELSE {})
                 \cup (IF x.stopped THEN {V("C09", "leadership_claimed_after_stop_returned", i, e)} ELSE {})
                 \cup (IF Calm(o) /\ ~AtMostOneLeader(Claims(o1, k)) THEN {V("C02", "two_leaders" \o CtxAny(o, k), i, e)} ELSE {})
                 \cup (IF Calm(o) /\ ~ClaimBacked(i, r, y.ttok) THEN {V("C02", "claim_not_backed_by_record" \o CtxI(o, i), i, e)} ELSE {})
            ELSE {}
      vf == IF falling /\ ~inStop /\ ~inVod /\ Quiet(o)
            THEN {V("C07", "leader_demoted_in_fault_free_operation:" \o x.note, i, e)} ELSE {}
      \* the same where priorities are configured but nobody is entitled to preempt this leader (no started instance with
      \* takeover enabled and a strictly higher priority): "no preemption" holds, the leader stays
      noPre == \A j \in Ids \ {i} : ~(o.I[j].present /\ o.I[j].started /\ o.I[j].cfg.tk /\ o.I[j].cfg.prio > x.cfg.prio)
      vf2 == IF falling /\ ~inStop /\ ~inVod /\ o.tk /\ noPre /\ ~o.faulty /\ ~o.slow /\ ~o.outside /\ ~o.hc /\ ~o.connEv /\ ~o.hard
             THEN {V("C07", "leader_demoted_without_entitled_preemptor:" \o x.note, i, e)} \cup
                  \* C10: "... and leadership then stays with the highest-priority instance" (a takeover-enabled leader above all others)
                  (IF x.cfg.tk /\ \A j \in Ids \ {i} : o.I[j].present => o.I[j].cfg.prio < x.cfg.prio
                   THEN {V("C10", "highest_priority_leader_demoted:" \o x.note, i, e)} ELSE {})
             ELSE {}
      vg == IF falling /\ x.note = "grace_demote" /\ (x.lastDisc < 0 \/ e.t < x.lastDisc + x.cfg.grace)
            THEN {V("C11", "grace_demotion_before_grace_period_elapsed", i, e)} ELSE {}
      \* "... if no reconnect notification arrived": the latest notification before the demotion was a reconnect
      vg2 == IF falling /\ x.note = "grace_demote" /\ x.lastReconn >= 0 /\ x.lastReconn > x.lastDisc
             THEN {V("C11", "grace_demotion_although_reconnect_notification_arrived", i, e)} ELSE {}
      vh == IF falling /\ (x.note = "health_fail" \/ x.lastEv = "health_u") /\ x.consecU # HealthThreshold(x.cfg.hn)
            THEN {V("C12", "health_demotion_at_wrong_count", i, e)} ELSE {}
      vpend == \E q \in o.pend : q.i = i /\ q.kind = "get" /\ q.src \in {"verify", "validate"}
      vv == IF falling /\ x.note = "verify_fail" /\ x.verifyOwn /\ x.verify # "failed" /\ ~vpend /\ x.verifyAt >= 0
            THEN {V("C11", "demoted_although_reconnect_verification_showed_ownership", i, e)} ELSE {}
      \* vacancy filled; an instance that stops claiming while the record is vacant is a candidate from now on
      o2 == IF rising /\ r.live /\ r.id = i THEN [o1 EXCEPT !.vacSince[k] = -1]
            ELSE IF falling THEN Rearm(o1, e.t) ELSE o1
  IN R(o2, vr \cup vf \cup vf2 \cup vg \cup vg2 \cup vh \cup vv)

H_m_isleader(o, e) == ClaimEdge(o, e.i, e.v = 1, e)

H_m_trans(o, e) ==
  LET x == o.I[e.i]
      v == IF e.from # x.lastTo THEN {V("C18", "transition_chain_broken", e.i, e)} ELSE {}
  IN R(SetI(o, e.i, [x EXCEPT !.lastTo = e.to]), v)

H_promote(o, e) ==
  LET x == o.I[e.i]
      v1 == IF ~PromoteAllowed(x.np, x.nd) THEN {V("C08", "promotion_without_preceding_demotion", e.i, e)} ELSE {}
      v2 == IF e.tok # x.ttok \/ ~x.claim THEN {V("C08", "promotion_with_wrong_token_or_without_claim", e.i, e)} ELSE {}
      v2b == IF e.tok # x.ttok /\ x.claim THEN {V("C05", "promotion_token_differs_from_record_token", e.i, e)} ELSE {}
      v3 == IF x.stopped THEN {V("C09", "promotion_after_stop_returned", e.i, e)} ELSE {}
      v4 == IF e.ctx_err THEN {V("C19", "promotion_context_already_cancelled", e.i, e)} ELSE {}
      y == [x EXCEPT !.np = @ + 1, !.term = e.term, !.ctxOpen = IF e.blocks THEN @ \cup {e.term} ELSE @]
  IN R(SetI(o, e.i, y), v1 \cup v2 \cup v2b \cup v3 \cup v4)

H_ctx_done(o, e) ==
  LET x == o.I[e.i]
      \* (not when the application itself cancelled the context it had given to Start: every context derived from it is done)
      v == IF x.claim /\ x.termLive /\ e.term = x.term /\ x.stopping = 0 /\ ~x.appCancel
           THEN {V("C19", "promotion_context_cancelled_while_leading", e.i, e)} ELSE {}
  IN R(SetI(o, e.i, [x EXCEPT !.ctxOpen = @ \ {e.term}]), v)

H_demote(o, e) ==
  LET x == o.I[e.i]
      v1 == IF ~DemoteAllowed(x.np, x.nd) THEN {V("C08", "demotion_without_matching_promotion", e.i, e)} ELSE {}
      v2 == IF Quiet(o) /\ x.stopping = 0 /\ ~x.owes /\ ~(\E c \in x.vc : c.call = "vod")
            THEN {V("C07", "demotion_callback_in_fault_free_operation", e.i, e)} ELSE {}
      y == [x EXCEPT !.nd = @ + 1, !.lostAt = IF ~x.claim THEN -1 ELSE @, !.owes = FALSE]
  IN R(SetI(o, e.i, y), v1 \cup v2)

H_health(o, e) ==
  LET x == o.I[e.i]
      N == HealthThreshold(x.cfg.hn)
      cu == IF e.res THEN 0 ELSE x.consecU + 1
      v1 == IF ~HealthDeadlineOK(e.dl) THEN {V("C12", "health_check_context_deadline", e.i, e)} ELSE {}
      \* (a slow or hanging check delivers its result when it returns: health_done)
      y == [x EXCEPT !.consecU = cu, !.hdue = ~e.res /\ cu >= N, !.hskip = @ \/ ~e.res \/ e.hang, !.hpend = e.slow]
      \* a checker that ignores its context and hangs stalls the heartbeat loop: the instance is cut off by user code
      y2 == IF e.hang THEN [y EXCEPT !.cut = TRUE] ELSE y
  IN R([SetI(o, e.i, y2) EXCEPT !.unhealthy = @ \/ ~e.res, !.faulty = @ \/ e.hang, !.hard = @ \/ e.hang], v1)

H_note(o, e) ==
  LET x == o.I[e.i]
      \* acquisition round timing (C17 clause b)
      v == IF e.name = "round_start" /\ (e.val < 10000000 \/ e.val > 100000000)
           THEN {V("C17", "round_jitter_outside_10_100ms", e.i, e)} ELSE {}
      \* back-off of attempt k: 50 ms * 2^k within +/-10 %  (nanoseconds)
      InWin(v0, b) == v0 >= b - b \div 10 /\ v0 <= b + b \div 10
      v2 == IF e.name = "round_backoff" /\ ~(InWin(e.val, 50000000) \/ InWin(e.val, 100000000) \/ InWin(e.val, 200000000))
            THEN {V("C17", "round_backoff_outside_window", e.i, e)} ELSE {}
      nb == IF e.name = "round_backoff" THEN x.nbo + 1 ELSE x.nbo
      nr == IF e.name = "round_start" THEN x.nrs + 1 ELSE x.nrs
      v3 == IF nb > 3 * nr THEN {V("C17", "round_makes_more_than_four_attempts", e.i, e)} ELSE {}
      isW == e.name \in {"round_start", "round_backoff"} /\ e.round > 0
      oldr == {r \in x.rnds : r.g = e.round}
      pr == IF oldr = {} THEN [g |-> e.round, n |-> 0, last |-> -1, noteT |-> -1, noteVal |-> 0] ELSE CHOOSE r \in oldr : TRUE
      rn == IF isW THEN (x.rnds \ oldr) \cup {[pr EXCEPT !.noteT = e.t, !.noteVal = e.val]} ELSE x.rnds
  IN R(SetI(o, e.i, [x EXCEPT !.note = e.name, !.nbo = nb, !.nrs = nr, !.rnds = rn]), v \cup v2 \cup v3)

H_disc(o, e) ==
  LET x == o.I[e.i] IN
  R([SetI(o, e.i, \* the grace period runs from the latest disconnect notification, whoever leads when it elapses (a later term of the
      \* same instance included); a stop or restart of the instance ends the demand
      [x EXCEPT !.lastDisc = e.t, !.graceDue = IF x.halted \/ ~x.started THEN -1 ELSE e.t + x.cfg.grace])
      EXCEPT !.connEv = TRUE], {})
H_reconn(o, e) ==
  LET x == o.I[e.i] IN
  R([SetI(o, e.i, [x EXCEPT !.graceDue = -1, !.lastReconn = e.t, !.verify = "none", !.verifyOwn = FALSE, !.verifyAt = -1,
                            !.reconnAt = IF x.claim /\ x.stopping = 0 THEN e.t ELSE -1])
      EXCEPT !.connEv = TRUE], {})
H_closed(o, e) == R([o EXCEPT !.connEv = TRUE], {})

H_partition(o, e) ==
  R([SetI(o, e.i, [o.I[e.i] EXCEPT !.part = TRUE, !.cut = TRUE]) EXCEPT !.faulty = TRUE, !.hard = TRUE], {})
H_heal(o, e) ==
  R(Rearm(SetI(o, e.i, [o.I[e.i] EXCEPT !.part = FALSE]), e.t + o.PT), {})

H_val_call(o, e) ==
  LET x == o.I[e.i]
      c == [cid |-> e.cid, call |-> e.call, wasLeader |-> x.claim, saw |-> Own(o, e.i), nd |-> x.nd, ctx |-> e.ctx, at |-> e.t]
  IN R(SetI(o, e.i, [x EXCEPT !.vc = @ \cup {c}]), {})

H_val_ret(o, e) ==
  LET x == o.I[e.i]
      cs == {c \in x.vc : c.cid = e.cid}
      c == CHOOSE c \in cs : TRUE
      v1 == IF e.ok /\ (cs = {} \/ ~c.saw) THEN {V("C04", "validation_true_without_owning_record", e.i, e)} ELSE {}
      v2 == IF e.call = "vod" /\ ~e.ok /\ e.leader THEN {V("C04", "still_leader_after_failed_validate_or_demote", e.i, e)} ELSE {}
      v3 == IF e.call = "vod" /\ ~e.ok /\ cs # {} /\ c.wasLeader /\ x.cfg.cb /\ x.nd <= c.nd /\ x.stopping = 0
            THEN {V("C04", "no_demotion_callback_after_failed_validate_or_demote", e.i, e)} ELSE {}
      \* "cancelled or expired context -> false": a context that was cancelled before the call (ctx = -1), or whose deadline
      \* (ctx > 0, microseconds from the call) passed more than a millisecond before the return
      v4 == IF e.ok /\ cs # {} /\ (c.ctx = -1 \/ (c.ctx > 0 /\ e.t > c.at + c.ctx + 1000))
            THEN {V("C04", "validation_true_with_cancelled_or_expired_context", e.i, e)} ELSE {}
  IN R(SetI(o, e.i, [x EXCEPT !.vc = @ \ cs]), v1 \cup v2 \cup v3 \cup v4)

\* snapshot of the public API at a quiescent point
H_snap(o, e) ==
  LET x == o.I[e.i]
      i == e.i
      k == x.cfg.group
      r == o.rec[k]
      \* a claim visible through IsLeader() that no metrics callback announced
      r0 == IF e.leader # x.claim THEN ClaimEdge(o, i, e.leader, e) ELSE R(o, {})
      o1 == r0.o
      y == o1.I[i]
      quiet == y.stopping = 0 /\ e.busy = 0
      v18a == IF ~StatusConsistent(e) THEN {V("C18", "status_snapshot_inconsistent", i, e)} ELSE {}
      v18b == IF y.claim /\ quiet /\ (e.slid # i \/ e.stok # y.ttok \/ (y.revOK /\ e.rev # y.trev))
              THEN {V("C18", "leader_snapshot_wrong_id_token_or_revision", i, e)} ELSE {}
      v18c == IF y.stopped /\ (e.state # "STOPPED" \/ e.leader)
              THEN {V("C18", "not_stopped_after_stop", i, e), V("C09", "state_not_stopped_after_stop_returned", i, e)} ELSE {}
      v09 == IF y.stopped /\ e.leader THEN {V("C09", "reports_leadership_after_stop_returned", i, e)} ELSE {}
      \* convergence is demanded in fault-free runs, and also when only watch notifications were lost or late provided the
      \* instance has known a leader before (the periodic check then corrects it)
      follower == ~y.claim /\ Cand(o1, i) /\ ~o1.hard /\ (~o1.faulty \/ y.hadLid) /\ e.state = "FOLLOWER"
      bound == 1000000 + 6 * o1.L + o1.W
      settled == r.live /\ r.cls = "payload" /\ e.t - o1.recSince[k] > bound /\ e.t - y.readyAt > bound /\ e.t - y.servedSince > bound
                 /\ (\A op \in o1.pend : op.i = i => e.t - op.at <= 2 * o1.L + 1000)
      v18d == IF follower /\ settled /\ e.slid # r.id THEN {V("C18", "follower_leader_id_not_converged", i, e)} ELSE {}
      v02 == IF Calm(o1) /\ y.claim /\ ~ClaimBacked(i, r, y.ttok) THEN {V("C02", "claim_not_backed_by_record" \o CtxI(o, i), i, e)} ELSE {}
      \* the live record is this instance's own write and names it, yet carries another token than the term it claims: no
      \* fault, outside writer or preemption accounts for that (a sibling acquisition of the same instance rewrote it)
      v02c == IF y.claim /\ quiet /\ ~o1.faulty /\ ~o1.outside /\ ~o1.hard /\ r.live /\ r.cls = "payload" /\ r.writer = i /\ r.id = i /\ r.tok # y.ttok
              THEN {V("C02", "claim_contradicted_by_own_record", i, e)} ELSE {}
      v02b == IF Calm(o1) /\ ~AtMostOneLeader(Claims(o1, k)) THEN {V("C02", "two_leaders" \o CtxAny(o, k), i, e)} ELSE {}
      v07 == IF Quiet(o1) /\ y.claim /\ e.tok # y.ttok THEN {V("C07", "term_token_changed", i, e)} ELSE {}
      v05 == IF y.claim /\ quiet /\ (e.tok # y.ttok \/ e.stok # y.ttok) THEN {V("C05", "token_accessors_differ_from_record_token", i, e)} ELSE {}
      v08 == IF quiet /\ y.cfg.cb /\ ~Balanced(y.claim, e.np, e.nd)
             THEN {V("C08", "callbacks_do_not_mirror_leadership:" \o y.why, i, e)} ELSE {}
      v12 == IF y.hdue /\ ~y.hpend /\ quiet /\ (y.claim \/ (y.cfg.cb /\ e.nd <= y.ndRise))
             THEN {V("C12", "not_demoted_at_configured_failure_count", i, e)} ELSE {}
      v19 == IF quiet /\ ~y.claim /\ y.ctxOpen # {} THEN {V("C19", "promotion_context_outlives_term", i, e)} ELSE {}
      \* first refresh attempt after the loss completed: must be demoted now (C03)
      v03 == IF quiet /\ ~y.cut /\ y.lostAt >= 0 /\ y.lostHb > 0 /\ y.lostHb \notin {q.op : q \in o1.pend}
                     /\ (\A q \in o1.pend : q.i = i => q.src # "hb")     \* (the attempt may end with a read of the record)
                     /\ (y.claim \/ (y.cfg.cb /\ e.nd <= y.ndRise))
             THEN {V("C03", "not_demoted_at_completion_of_next_heartbeat:" \o y.lostCause \o Ctx(o1), i, e)} \cup
                  (IF y.lostOutside THEN {V("C13", "tampered_leader_not_demoted_at_completion_of_next_heartbeat:" \o y.lostCause, i, e)} ELSE {}) ELSE {}
      \* (the failure that completed the count lies strictly before this quiescent point: at the very instant of a local
      \*  time-out the library's own timer may not have run yet)
      v03b == IF quiet /\ y.claim /\ y.failRun >= ToleratedFailures /\ e.t > y.failT
              THEN {V("C03", "not_demoted_after_third_failed_refresh", i, e)} ELSE {}
      \* (the verification is over: none of its reads is still outstanding)
      vpend == \E q \in o1.pend : q.i = i /\ q.vfy
      vver == IF quiet /\ y.verify = "failed" /\ y.claim /\ ~vpend
              THEN {V("C11", "kept_leadership_although_verification_read_did_not_show_ownership", i, e)} ELSE {}
      z == [y EXCEPT !.hadLid = @ \/ e.slid # "",
                     !.hdue = IF quiet /\ ~y.hpend THEN FALSE ELSE @,
                     !.lostAt = IF v03 # {} THEN -1 ELSE @,
                     !.failRun = IF v03b # {} THEN 0 ELSE @,
                     !.verify = IF quiet /\ @ = "failed" /\ ~vpend THEN "none" ELSE @]
  IN R(SetI(o1, i, z),
       r0.v \cup v18a \cup v18b \cup v18c \cup v18d \cup v02 \cup v02b \cup v02c \cup v07 \cup v05 \cup v08 \cup v12
            \cup v19 \cup v03 \cup v03b \cup vver \cup v09)

\* terminal events
Blame(o) == (IF o.stopSeen THEN {"C09"} ELSE {}) \cup (IF o.connEv THEN {"C11"} ELSE {})
            \cup (IF o.outside \/ o.badval THEN {"C13"} ELSE {})
            \* ... in the middle of filling a vacancy: a started, non-stopped instance that does not claim leadership while its
            \* group's record is vacant or is the one it has just written (C06: one of those instances becomes leader)
            \cup (IF \E i \in Ids : LET x == o.I[i] r == o.rec[x.cfg.group] IN
                            x.present /\ x.started /\ ~x.halted /\ ~x.claim
                            /\ (o.vacSince[x.cfg.group] >= 0 \/ (r.live /\ r.writer = i /\ r.id = i))
                  THEN {"C06"} ELSE {})
Crash(o, e, what) ==
  LET ps == IF Blame(o) = {} THEN {"C09", "C13"} ELSE Blame(o) IN
  R([o EXCEPT !.ended = TRUE], {V(p, what, "env", e) : p \in ps})

H_final(o, e) == IF e.leaked > 0 THEN Crash(o, e, "goroutines_alive_after_stop")
                 ELSE IF e.wopen > 0 THEN R([o EXCEPT !.ended = TRUE], {V("C09", "watcher_not_stopped_after_stop", "env", e)})
                 ELSE R(o, {})

Handle(o, e) ==
  LET ev == e.ev IN
  IF ev = "reset" THEN H_reset(o, e)
  ELSE IF ev = "hang" THEN Crash(o, e, "hang")
  ELSE IF ev = "panic" THEN Crash(o, e, "panic")
  ELSE IF ev = "final" THEN H_final(o, e)
  ELSE IF o.ended THEN R(o, {})
  ELSE IF ev = "end" THEN R([o EXCEPT !.ended = TRUE], {})
  ELSE IF ev = "op_issue" THEN H_op_issue(o, e)
  ELSE IF ev = "op_apply" THEN H_op_apply(o, e)
  ELSE IF ev = "op_resp" THEN H_op_resp(o, e)
  ELSE IF ev \in {"op_fail", "op_hang"} THEN H_op_fault(o, e)
  ELSE IF ev = "snap" THEN H_snap(o, e)
  ELSE IF ev = "m_isleader" THEN H_m_isleader(o, e)
  ELSE IF ev = "m_trans" THEN H_m_trans(o, e)
  ELSE IF ev = "promote" THEN H_promote(o, e)
  ELSE IF ev = "ctx_done" THEN H_ctx_done(o, e)
  ELSE IF ev = "demote" THEN H_demote(o, e)
  ELSE IF ev = "health" THEN H_health(o, e)
  ELSE IF ev = "note" THEN H_note(o, e)
  ELSE IF ev = "start_call" THEN H_start_call(o, e)
  ELSE IF ev = "start_ret" THEN H_start_ret(o, e)
  ELSE IF ev = "stop_call" THEN H_stop_call(o, e)
  ELSE IF ev = "stop_ret" THEN H_stop_ret(o, e)
  ELSE IF ev = "val_call" THEN H_val_call(o, e)
  ELSE IF ev = "val_ret" THEN H_val_ret(o, e)
  ELSE IF ev = "expire" THEN H_expire(o, e)
  ELSE IF ev = "out_put" THEN H_out_put(o, e)
  ELSE IF ev = "out_del" THEN H_out_del(o, e)
  ELSE IF ev = "w_drop" THEN H_w_drop(o, e)
  ELSE IF ev = "disc" THEN H_disc(o, e)
  ELSE IF ev = "reconn" THEN H_reconn(o, e)
  ELSE IF ev = "closed" THEN H_closed(o, e)
  ELSE IF ev = "script_miss"          \* a model behaviour being replayed could not be followed: the rest of the run is not paced by the script
       THEN R([o EXCEPT !.faulty = TRUE, !.hard = TRUE, !.I = [i \in Ids |-> [o.I[i] EXCEPT !.cut = TRUE]]], {})
  ELSE IF ev = "gate" /\ e.where = "stop_leader_duration" /\ ~e.leader /\ o.I[e.i].ctxOpen # {}
       THEN R(o, {V("C19", "promotion_context_alive_after_leadership_flag_cleared", e.i, e)})
  ELSE IF ev = "health_done" THEN R(SetI(o, e.i, [o.I[e.i] EXCEPT !.hpend = FALSE]), {})
  ELSE IF ev = "start_ctx_cancelled" THEN R(SetI(o, e.i, [o.I[e.i] EXCEPT !.appCancel = TRUE, !.halted = TRUE, !.ready = FALSE]), {})
  ELSE IF ev = "partition" THEN H_partition(o, e)
  ELSE IF ev = "heal" THEN H_heal(o, e)
  ELSE R(o, {})

\* remember the kind of the last event of each instance (attribution of demotions)
Remember(o, e) ==
  IF e.i \in Ids /\ ~o.ended /\ e.ev \notin {"snap", "reset"}
  THEN [o EXCEPT !.I[e.i].lastEv = IF e.ev = "health" THEN (IF e.res THEN "health_h" ELSE "health_u") ELSE e.ev]
  ELSE o

Apply(o, e) ==
  LET r1 == Tick(o, e)
      r2 == Handle(r1.o, e)
  IN R(Remember(r2.o, e), r1.v \cup r2.v)
=============================================================================
