---------------------------- MODULE MonitorTrace ----------------------------
(***************************************************************************)
(* Trace specification for the VERDICT: replays a trace recorded from the  *)
(* real code (NDJSON, one event per line, many scenarios separated by      *)
(* reset events) into the observable state of Obs.tla and collects every   *)
(* clause of Props.tla that is false at some step.  The step is            *)
(* deterministic, so the search is linear in the length of the trace.      *)
(*   IOEnv.TRACE  input file;  IOEnv.OUT  violations (NDJSON)              *)
(***************************************************************************)
EXTENDS Obs, Json, IOUtils, SequencesExt

VARIABLES l, o, viol
mvars == <<l, o, viol>>

Trace == ndJsonDeserialize(IOEnv.TRACE)

MInit == /\ l = 1 /\ o = O0 /\ viol = {}
         /\ TLCSet(1, 1) /\ TLCSet(2, {})

MNext == /\ l <= Len(Trace)
         /\ LET r == Apply(o, Trace[l])
                nv == {[p |-> v.p, c |-> v.c, i |-> v.i, seq |-> v.seq, t |-> v.t, scn |-> r.o.scn] : v \in r.v}
            IN /\ o' = r.o
               /\ viol' = viol \cup nv
               /\ TLCSet(2, viol \cup nv)
         /\ l' = l + 1
         /\ TLCSet(1, l + 1)

MSpec == MInit /\ [][MNext]_mvars

\* accepted iff every line was consumed; the violations are written out for the orchestrator
Consumed == /\ TLCGet(1) = Len(Trace) + 1
            /\ ndJsonSerialize(IOEnv.OUT, SetToSeq(TLCGet(2)))
=============================================================================
