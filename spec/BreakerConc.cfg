SPECIFICATION Spec
CONSTANTS
  Callers = {c1, c2, c3, c4, c5, c6}
  MaxThr = 4
  Dev = "none"
INVARIANTS TypeOK C17_NoInvocationWhileOpen C17_Linearizable C17_OneAtATime
PROPERTY Terminates
CHECK_DEADLOCK FALSE
