\* MC.tla
SPECIFICATION Spec
CONSTANTS
  Inst = {"A"}
  H = 4
  TTL = 12
  CHK = 10
  JIT <- JIT_S
  BO <- BO_S
  LAT = 1
  UT = 20
  VI = 0
  GRACE = 100
  MaxNow = 22
  NR = 1
  Prio <- AllZero
  TK <- AllFalse
  HN <- AllZero
  CONN <- AllFalse
  MaxStarts = 1
  MaxStops = 0
  MaxFaults = 4
  MaxOutside = 0
  MaxUnhealthy = 0
  MaxConnEv = 0
  MaxApi = 0
  StopKinds <- SK_Del
  OutKinds <- OK_Del
  Faults <- F_Fail
  Dev <- NoDev
CONSTRAINT NoOverflow
CHECK_DEADLOCK FALSE
INVARIANTS NoViolation C08_Mirror C09_Final C18_Consistent C19_Ctx C03_Bound
