------------------------------ MODULE KVStore ------------------------------
(***************************************************************************)
(* C14  The store contract the election relies on: a NATS JetStream KV     *)
(* bucket as seen through the library's adapter (and as implemented by the *)
(* harness' reference store).  Semantics measured against nats-server      *)
(* 2.12.2 / nats.go 1.47:                                                  *)
(*  - one sequence per bucket; every successful mutation (also a delete,   *)
(*    also on another key) takes the next number; failed operations none   *)
(*  - Create succeeds iff the key has no live value (absent, tombstone,    *)
(*    expired)                                                             *)
(*  - Update(rev) succeeds iff rev is the key's last sequence: the revision*)
(*    of the live value or of the tombstone, 0 when absent or expired      *)
(*  - Get returns the live value, otherwise "not found"                    *)
(*  - Delete is unconditional and always writes a tombstone                *)
(*  - a value or tombstone older than MaxAge is gone (no event)            *)
(*  - a watch yields the current value or tombstone (if any), then the nil *)
(*    marker, then every later change exactly once, in revision order,     *)
(*    deletions as empty values                                            *)
(* Step(s, op) is the pure transition function; the variables part below   *)
(* turns it into a state machine whose invariants TLC checks; KVStoreGen   *)
(* enumerates operation sequences with their expected results, which the   *)
(* harness executes on the real adapter and on the reference store.        *)
(***************************************************************************)
EXTENDS Integers, Sequences, FiniteSets, TLC

Keys == {"k", "j"}
NoVal == [kind |-> "absent", val |-> "", rev |-> 0]

\* state: [rec: Keys -> record, seq, w: sequence of watchers [key, evs], latest: Keys -> last revision returned to the client]
S0 == [rec |-> [k \in Keys |-> NoVal], seq |-> 0, w |-> <<>>, latest |-> [k \in Keys |-> 0]]

LastSeq(s, k) == s.rec[k].rev
IsLive(s, k) == s.rec[k].kind = "val"

Notify(s, k, ev) == [n \in 1..Len(s.w) |-> IF s.w[n].key = k THEN [s.w[n] EXCEPT !.evs = Append(@, ev)] ELSE s.w[n]]

\* op: [op, key, val, exp]   result: [ok, rev, val, err]
Ok(rev, val) == [ok |-> TRUE, rev |-> rev, val |-> val, err |-> "none"]
Err(e) == [ok |-> FALSE, rev |-> 0, val |-> "", err |-> e]

Write(s, k, v) ==
  LET r == s.seq + 1 IN
  [s EXCEPT !.rec[k] = [kind |-> "val", val |-> v, rev |-> r], !.seq = r, !.latest[k] = r,
            !.w = Notify(s, k, [kind |-> "val", val |-> v, rev |-> r])]

Step(s, op) ==
  LET k == op.key IN
  CASE op.op = "create" ->
         IF IsLive(s, k) THEN [s |-> s, r |-> Err("keyexists")]
         ELSE [s |-> Write(s, k, op.val), r |-> Ok(s.seq + 1, "")]
    [] op.op = "update" ->
         IF op.exp = LastSeq(s, k) THEN [s |-> Write(s, k, op.val), r |-> Ok(s.seq + 1, "")]
         ELSE [s |-> s, r |-> Err("conflict")]
    [] op.op = "get" ->
         IF IsLive(s, k) THEN [s |-> s, r |-> Ok(s.rec[k].rev, s.rec[k].val)]
         ELSE [s |-> s, r |-> Err("notfound")]
    [] op.op = "delete" ->
         LET r == s.seq + 1 IN
         [s |-> [s EXCEPT !.rec[k] = [kind |-> "tomb", val |-> "", rev |-> r], !.seq = r,
                          !.w = Notify(s, k, [kind |-> "del", val |-> "", rev |-> r])],
          r |-> Ok(0, "")]
    [] op.op = "expire" ->          \* MaxAge passes without a write: everything stored is gone, silently
         [s |-> [s EXCEPT !.rec = [x \in Keys |-> NoVal]], r |-> Ok(0, "")]
    [] op.op = "watch" ->
         LET init == IF s.rec[k].kind = "val" THEN <<[kind |-> "val", val |-> s.rec[k].val, rev |-> s.rec[k].rev]>>
                     ELSE IF s.rec[k].kind = "tomb" THEN <<[kind |-> "del", val |-> "", rev |-> s.rec[k].rev]>> ELSE <<>>
         IN [s |-> [s EXCEPT !.w = Append(@, [key |-> k, evs |-> init \o <<[kind |-> "nil", val |-> "", rev |-> 0]>>])], r |-> Ok(0, "")]

\* ---- the property, as statements about one step ----
CreateOK(s, op, r) == r.ok <=> ~IsLive(s, op.key)
UpdateOK(s, op, r) == r.ok <=> op.exp = LastSeq(s, op.key)
RevisionsIncrease(s, r) == r.ok /\ r.rev # 0 => r.rev > s.seq
GetOK(s, op, r) == IF IsLive(s, op.key) THEN r.ok /\ r.val = s.rec[op.key].val /\ r.rev = s.rec[op.key].rev ELSE ~r.ok

\* ---- state machine (for TLC's own check of the contract) ----
CONSTANTS MaxSeq
VARIABLES st, last      \* last: the last operation and its result
kvvars == <<st, last>>
Vals == {"a", "b"}
Ops == {[op |-> o, key |-> k, val |-> v, exp |-> e] : o \in {"create", "update"}, k \in Keys, v \in Vals, e \in 0..MaxSeq}
       \cup {[op |-> o, key |-> k, val |-> "", exp |-> 0] : o \in {"get", "delete", "watch"}, k \in Keys}
       \cup {[op |-> "expire", key |-> "k", val |-> "", exp |-> 0]}
KVInit == st = S0 /\ last = [op |-> [op |-> "none", key |-> "k", val |-> "", exp |-> 0], r |-> Ok(0, ""), before |-> S0]
KVNext == \E op \in Ops :
            /\ st.seq < MaxSeq /\ Len(st.w) < 2
            /\ LET x == Step(st, op) IN st' = x.s /\ last' = [op |-> op, r |-> x.r, before |-> st]
KVSpec == KVInit /\ [][KVNext]_kvvars

Contract ==
  LET op == last.op r == last.r b == last.before IN
  /\ (op.op = "create" => CreateOK(b, op, r))
  /\ (op.op = "update" => UpdateOK(b, op, r))
  /\ (op.op = "get" => GetOK(b, op, r))
  /\ (op.op \in {"create", "update"} => RevisionsIncrease(b, r))
\* every watcher has received the nil marker exactly once, and the revisions it sees after it strictly increase
WatchOrder == \A n \in 1..Len(st.w) :
  LET evs == st.w[n].evs
      nils == {i \in 1..Len(evs) : evs[i].kind = "nil"} IN
  /\ Cardinality(nils) = 1
  /\ \A i, j \in 1..Len(evs) : i < j /\ evs[i].kind # "nil" /\ evs[j].kind # "nil" => evs[i].rev < evs[j].rev
=============================================================================
