\* MC.tla
SPECIFICATION Spec
CONSTANTS
  Inst = {"A"}
  H = 4
  TTL = 12
  CHK = 10
  JIT <- JIT_S
  BO <- BO_S
  LAT = 1
  UT = 20
  VI = 0
  GRACE = 100
  MaxNow = 40
  NR = 1
  Prio <- AllZero
  TK <- AllFalse
  HN <- HN2
  CONN <- AllFalse
  MaxStarts = 1
  MaxStops = 1
  MaxFaults = 0
  MaxOutside = 0
  MaxUnhealthy = 4
  MaxConnEv = 0
  MaxApi = 0
  StopKinds <- SK_Stop
  OutKinds <- OK_Del
  Faults <- NoFaults
  Dev <- NoDev
CONSTRAINT NoOverflow
CHECK_DEADLOCK FALSE
INVARIANTS NoViolation C08_Mirror C09_Final C18_Consistent C19_Ctx C03_Bound
