----------------------------- MODULE RetryCheck -----------------------------
(* Judges what the real functions did (IOEnv.IN: rows with kind "retry" | "breaker" | "backoff"). *)
EXTENDS Retry
Results == ndJsonDeserialize(IOEnv.IN)
\* waits[k] (microseconds, virtual time) between call k and call k+1 must lie in the back-off window of attempt k-1:
\* DefaultBackoff-like config used by the harness: init 50 ms, max 400 ms, x2, jitter 10 %
WaitOK(k, w) == LET b == SatPow(5000, 2, 1, k - 1, 40000) * 10 IN w >= b - b \div 10 /\ w <= b + b \div 10
VRetry(r) ==
  LET s == [max |-> r.max, outs |-> r.outs, cancel |-> <<r.ckind, r.cat>>, thr |-> r.thr]
      e == ExpectRetry(s) IN
  (IF r.calls # e.calls THEN {"retry_invocation_count"} ELSE {}) \cup
  (IF r.res # e.res THEN {"retry_result"} ELSE {}) \cup
  (IF r.max > 0 /\ r.calls > r.max THEN {"retry_more_than_max_attempts"} ELSE {}) \cup
  (IF \E k \in 1..Len(r.waits) : ~WaitOK(k, r.waits[k]) THEN {"retry_wait_outside_backoff_window"} ELSE {})
VBreaker(r) ==
  LET s == [thr |-> r.thr, calls |-> [k \in 1..Len(r.gaps) |-> <<r.gaps[k], r.outs[k]>>]]
      e == ExpectBreaker(s) IN
  (IF \E k \in 1..Len(e) : e[k].invoked # r.invoked[k] THEN {"breaker_invocation"} ELSE {}) \cup
  (IF \E k \in 1..Len(e) : e[k].res # r.res[k] THEN {"breaker_result"} ELSE {})
\* n concurrent failing calls inside the cool-down: in every order of taking effect the same number of them is invoked
VBreakerConc(r) ==
  LET e == BreakerRun(B0, 1000000, r.thr, [k \in 1..r.n |-> <<0, "fail">>])
      want == Cardinality({k \in 1..Len(e) : e[k].invoked}) IN
  IF r.invoked # want THEN {"breaker_concurrent_calls_not_linearizable"} ELSE {}
VBackoff(r) == IF BackoffOK(r) THEN {} ELSE {"backoff_outside_window_or_negative"}
Verdict(r) == IF r.kind = "retry" THEN VRetry(r) ELSE IF r.kind = "breaker" THEN VBreaker(r)
              ELSE IF r.kind = "breaker_conc" THEN VBreakerConc(r) ELSE VBackoff(r)
ASSUME LET rs == Results
           bad == SelectSeq([k \in 1..Len(rs) |-> [row |-> k, clauses |-> SetToSeq(Verdict(rs[k])), r |-> rs[k]]],
                            LAMBDA b : b.clauses # <<>>)
       IN /\ PrintT(<<"results", Len(rs), "bad", Len(bad)>>)
          /\ ndJsonSerialize(IOEnv.OUT, bad)
VARIABLE x
Init == x = 0
Next == UNCHANGED x
=============================================================================
