------------------------------- MODULE Props -------------------------------
(***************************************************************************)
(* The listed properties C01..C13, C18, C19 as operators over OBSERVABLE   *)
(* values only (abstract record, claim flags, term tokens, callback        *)
(* counters, times).  Nothing here mentions a variable: the operators are  *)
(* instantiated twice,                                                     *)
(*   - by Obs.tla / MonitorTrace.tla on values replayed from a trace of    *)
(*     the real code (this is the verdict), and                            *)
(*   - by Election.tla on the state of the model (exhaustive check of the  *)
(*     design with TLC).                                                   *)
(* A record version is                                                     *)
(*   [live, id, tok, prio, cls, rev, writer, at]                           *)
(* cls is "payload" (well-formed id+token), "object" (JSON object lacking  *)
(* one of them), "malformed", "empty" or "none"; writer is the instance    *)
(* that wrote the version or "outside".                                    *)
(***************************************************************************)
EXTENDS Integers, FiniteSets

PMax(a, b) == IF a >= b THEN a ELSE b
PMin(a, b) == IF a <= b THEN a ELSE b

\* heartbeat operation time-out of the library: max(H/2, 1 s); times are microseconds
OpTimeout(h) == PMax(h \div 2, 1000000)

NoRec == [live |-> FALSE, id |-> "", tok |-> 0, prio |-> 0, cls |-> "none",
          rev |-> 0, writer |-> "", at |-> 0]

(***************************************************************************)
(* C01  every successful mutation m of a record whose previous version is  *)
(* p, issued by instance w (configuration: takeover flag tk, priority pr,  *)
(* group grp), while w is / is not inside one of its own stop calls.       *)
(***************************************************************************)
IsRefresh(m, p, w)    == p.live /\ p.writer = w /\ m.id = p.id /\ m.tok = p.tok /\ m.id = w
IsPreemption(m, p, tk, pr) == p.live /\ tk /\ pr > p.prio
LegitMutation(m, p, w, tk, pr, stopping) ==
  CASE m.kind = "create" -> ~p.live
    [] m.kind = "update" -> \/ ~p.live                        \* writes onto a vacant key: a creation
                            \/ IsRefresh(m, p, w)
                            \/ IsPreemption(m, p, tk, pr) /\ p.writer # w
    [] m.kind = "delete" -> \/ ~p.live                        \* nothing to change
                            \/ p.writer = w /\ stopping
    [] OTHER -> TRUE
OwnGroupOnly(m, grp) == m.key = grp

(***************************************************************************)
(* C02 / C07  claims: set of instances reporting leadership; rec: abstract *)
(* record of the group; ttok: term token per instance                      *)
(***************************************************************************)
AtMostOneLeader(claims) == Cardinality(claims) <= 1
ClaimBacked(i, rec, ttok) == rec.live /\ rec.id = i /\ rec.tok = ttok /\ rec.cls = "payload"

(***************************************************************************)
(* C03  deadlines                                                          *)
(***************************************************************************)
DeposedDeadline(lostAt, h) == lostAt + h + 2 * OpTimeout(h)
CutOffDeadline(okStart, h) == okStart + 3 * h + 3 * OpTimeout(h)
ToleratedFailures == 3

(***************************************************************************)
(* C05  tokens                                                             *)
(***************************************************************************)
FreshToken(tok, tokensEver) == tok # 0 /\ tok \notin tokensEver

(***************************************************************************)
(* C06  vacancy bound: periodic check + maximum jitter + latencies         *)
(***************************************************************************)
PeriodicCheck == 500000
MaxJitter     == 100000
VacancyDeadline(since, lat) == since + PeriodicCheck + MaxJitter + 8 * lat + 1000

(***************************************************************************)
(* C08  callbacks mirror leadership                                        *)
(***************************************************************************)
PromoteAllowed(np, nd) == np = nd
DemoteAllowed(np, nd)  == np = nd + 1
Balanced(claim, np, nd) == IF claim THEN np = nd + 1 ELSE np = nd

(***************************************************************************)
(* C09  stop                                                               *)
(***************************************************************************)
StopBound(variant, timeout, ddur, wait) ==
  IF variant = "stop" THEN 5000000 + ddur
  ELSE timeout                     \* all phases of StopWithContext share its time-out

(***************************************************************************)
(* C10  promptness of preemption                                           *)
(***************************************************************************)
PreemptDeadline(since, h) == since + 3 * h

(***************************************************************************)
(* C11  grace                                                              *)
(***************************************************************************)
DefaultGrace(h) == PMax(3 * h, 5000000)

(***************************************************************************)
(* C12  health                                                             *)
(***************************************************************************)
HealthThreshold(n) == IF n <= 0 THEN 3 ELSE n
HealthDeadlineOK(dl) == dl > 0 /\ dl <= 100000

(***************************************************************************)
(* C18  status                                                             *)
(***************************************************************************)
States == {"INIT", "CANDIDATE", "LEADER", "FOLLOWER", "DEMOTED", "STOPPED"}
StatusConsistent(s) == /\ s.sleader = (s.state = "LEADER")
                       /\ s.leader = s.sleader
                       /\ s.state \in States
                       /\ s.gauge = (IF s.leader THEN 1 ELSE 0)
                       /\ s.lid = s.slid /\ s.tok = s.stok
=============================================================================
