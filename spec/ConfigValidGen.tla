--------------------------- MODULE ConfigValidGen ---------------------------
(* TLC enumerates the lattice of ConfigValid.tla, checks the transcription of the code against the
   property on it and writes the configurations to IOEnv.OUT. *)
EXTENDS ConfigValid
ASSUME PrintT(<<"configs", Cardinality(Cfgs)>>)
ASSUME ImplMeetsProperty
ASSUME LET cs == SetToSeq(Cfgs) IN ndJsonSerialize(IOEnv.OUT, [k \in 1..Len(cs) |-> Row(cs[k])])
VARIABLE x
Init == x = 0
Next == UNCHANGED x
=============================================================================
