--------------------------- MODULE BreakerConc ---------------------------
(***************************************************************************)
(* C17, circuit breaker under concurrent callers.                          *)
(*                                                                         *)
(* Retry.tla gives the breaker's required behaviour as a function of a     *)
(* SEQUENCE of calls (BreakerStep).  The implementation is called from     *)
(* several goroutines; what is required then is that the calls take effect *)
(* in some order (admission check, operation and bookkeeping of one call   *)
(* are one atomic step).  This module models N callers whose operation     *)
(* fails, all inside the cool-down, at the grain of the implementation's   *)
(* critical section: Enter (lock, admission check), Finish (bookkeeping,   *)
(* unlock).  It shows that whatever the interleaving exactly min(N, thr)   *)
(* operations are invoked - the number RetryCheck.tla demands from the     *)
(* real CircuitBreaker driven by real goroutines (rows "breaker_conc").    *)
(*                                                                         *)
(* Dev = "unlock_during_call" is the deviation in which the lock is        *)
(* released while the operation runs (admission and bookkeeping are two    *)
(* critical sections): TLC then finds more than thr invocations.           *)
(***************************************************************************)
EXTENDS Integers, FiniteSets
CONSTANTS Callers, MaxThr, Dev
VARIABLES pc, lock, st, fails, invoked, rejected, thr
vars == <<pc, lock, st, fails, invoked, rejected, thr>>

Min(a, b) == IF a < b THEN a ELSE b
Free == lock = "none"

Init == /\ pc = [c \in Callers |-> "idle"]
        /\ lock = "none" /\ st = "closed" /\ fails = 0 /\ invoked = 0 /\ rejected = 0
        /\ thr \in 1..MaxThr

\* lock, admission check; an open breaker (cool-down not over) rejects without invoking
Enter(c) ==
  /\ pc[c] = "idle" /\ Free
  /\ IF st = "open"
     THEN /\ pc' = [pc EXCEPT ![c] = "done"] /\ rejected' = rejected + 1
          /\ UNCHANGED <<lock, invoked>>
     ELSE /\ pc' = [pc EXCEPT ![c] = "running"] /\ invoked' = invoked + 1
          /\ lock' = IF Dev = "unlock_during_call" THEN "none" ELSE c
          /\ UNCHANGED rejected
  /\ UNCHANGED <<st, fails, thr>>

\* the operation has failed: bookkeeping (under the lock), unlock
Finish(c) ==
  /\ pc[c] = "running"
  /\ IF Dev = "unlock_during_call" THEN Free ELSE lock = c
  /\ fails' = fails + 1
  /\ st' = IF fails + 1 >= thr THEN "open" ELSE st
  /\ lock' = "none"
  /\ pc' = [pc EXCEPT ![c] = "done"]
  /\ UNCHANGED <<invoked, rejected, thr>>

Next == \E c \in Callers : Enter(c) \/ Finish(c)
Spec == Init /\ [][Next]_vars /\ WF_vars(Next)

TypeOK == /\ pc \in [Callers -> {"idle", "running", "done"}] /\ lock \in Callers \cup {"none"}
          /\ st \in {"closed", "open"} /\ fails \in 0..Cardinality(Callers) /\ invoked \in 0..Cardinality(Callers)
\* never more invocations than the threshold allows while the cool-down lasts
C17_NoInvocationWhileOpen == invoked <= thr
\* when all calls are over: exactly min(N, thr) invoked, the others rejected; open iff the threshold was reached
AllDone == \A c \in Callers : pc[c] = "done"
C17_Linearizable == AllDone => /\ invoked = Min(Cardinality(Callers), thr)
                               /\ rejected = Cardinality(Callers) - invoked
                               /\ (st = "open") = (Cardinality(Callers) >= thr)
\* at most one operation runs at a time (the implementation holds its lock across the call)
C17_OneAtATime == Cardinality({c \in Callers : pc[c] = "running"}) <= 1
Terminates == <>AllDone
=============================================================================
