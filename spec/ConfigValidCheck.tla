-------------------------- MODULE ConfigValidCheck --------------------------
(* Judges the outcomes of the real NewElection calls (IOEnv.IN, one row per call: the configuration
   row plus base, accepted, field, touched) with the operators of ConfigValid.tla; the violated
   clauses go to IOEnv.OUT. *)
EXTENDS ConfigValid
Results == ndJsonDeserialize(IOEnv.IN)
Verdict(r) ==
  LET c == OfRow(r) IN
  (IF r.accepted # Documented(c) THEN {"accept_iff_documented"} ELSE {}) \cup
  (IF ~r.accepted /\ r.field \notin Offending(c) THEN {"error_names_offending_field"} ELSE {}) \cup
  (IF ~r.accepted /\ r.touched THEN {"store_contacted_before_validation"} ELSE {}) \cup
  (IF r.field # Impl(c) THEN {"CONFORMANCE_impl_transcription_differs"} ELSE {})
ASSUME LET rs == Results
           bad == SelectSeq([k \in 1..Len(rs) |-> [row |-> k, clauses |-> SetToSeq(Verdict(rs[k])), r |-> rs[k]]],
                            LAMBDA b : b.clauses # <<>>)
       IN /\ PrintT(<<"results", Len(rs), "bad", Len(bad)>>)
          /\ ndJsonSerialize(IOEnv.OUT, bad)
VARIABLE x
Init == x = 0
Next == UNCHANGED x
=============================================================================
