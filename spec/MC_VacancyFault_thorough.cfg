\* MC.tla
SPECIFICATION Spec
CONSTANTS
  Inst = {"A", "B"}
  H = 2
  TTL = 6
  CHK = 5
  JIT <- JIT_C
  BO <- BO_C
  LAT = 1
  UT = 10
  VI = 0
  GRACE = 100
  MaxNow = 16
  NR = 1
  Prio <- AllZero
  TK <- AllFalse
  HN <- AllZero
  CONN <- AllFalse
  MaxStarts = 2
  MaxStops = 1
  MaxFaults = 1
  MaxOutside = 0
  MaxUnhealthy = 0
  MaxConnEv = 0
  MaxApi = 0
  StopKinds <- SK_Del
  OutKinds <- OK_Del
  Faults <- F_FailWatch
  Dev <- NoDev
CONSTRAINT NoOverflow
CHECK_DEADLOCK FALSE
INVARIANTS NoViolation C08_Mirror C09_Final C18_Consistent C19_Ctx C06_Filled C06_Recovers C03_Bound
