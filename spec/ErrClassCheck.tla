---------------------------- MODULE ErrClassCheck ----------------------------
(* Judges the outcomes of the real IsPermanentError / IsTransientError (IOEnv.IN: leaf, ws, perm, trans, nil)
   with the operators of ErrClass.tla. Rows with leaf "random" (seeded random message texts) and "nil" are only
   judged for totality and exclusivity. *)
EXTENDS ErrClass
Results == ndJsonDeserialize(IOEnv.IN)
Known(r) == r.leaf \in Leaves
Verdict(r) ==
  LET t == [leaf |-> r.leaf, ws |-> r.ws] IN
  (IF r.perm /\ r.trans THEN {"not_exclusive"} ELSE {}) \cup
  (IF r.isnil /\ (r.perm \/ r.trans) THEN {"nil_classified"} ELSE {}) \cup
  (IF ~r.isnil /\ ~r.perm /\ ~r.trans THEN {"not_total"} ELSE {}) \cup
  (IF Known(r) /\ Required(t) = "perm" /\ ~r.perm THEN {"required_permanent:" \o r.leaf} ELSE {}) \cup
  (IF Known(r) /\ Required(t) = "trans" /\ ~r.trans THEN {"required_transient:" \o r.leaf} ELSE {}) \cup
  (IF Known(r) /\ ~r.isnil /\ r.perm # ImplPerm(t) THEN {"CONFORMANCE_impl_transcription_differs"} ELSE {})
ASSUME LET rs == Results
           bad == SelectSeq([k \in 1..Len(rs) |-> [row |-> k, clauses |-> SetToSeq(Verdict(rs[k])), r |-> rs[k]]],
                            LAMBDA b : b.clauses # <<>>)
       IN /\ PrintT(<<"results", Len(rs), "bad", Len(bad)>>)
          /\ ndJsonSerialize(IOEnv.OUT, bad)
VARIABLE x
Init == x = 0
Next == UNCHANGED x
=============================================================================
