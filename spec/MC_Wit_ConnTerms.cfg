\* MC.tla
SPECIFICATION Spec
CONSTANTS
  Inst = {"A"}
  H = 4
  TTL = 12
  CHK = 10
  JIT <- JIT_S
  BO <- BO_S
  LAT = 1
  UT = 20
  VI = 0
  GRACE = 12
  MaxNow = 26
  NR = 1
  Prio <- AllZero
  TK <- AllFalse
  HN <- AllZero
  CONN <- CONN_A
  MaxStarts = 1
  MaxStops = 0
  MaxFaults = 0
  MaxOutside = 1
  MaxUnhealthy = 0
  MaxConnEv = 2
  MaxApi = 0
  StopKinds <- SK_Stop
  OutKinds <- OK_Del
  Faults <- NoFaults
  Dev <- NoDev
CONSTRAINT NoOverflow
CHECK_DEADLOCK FALSE
INVARIANTS NoViolation C08_Mirror C09_Final C18_Consistent C19_Ctx C11_Grace C03_Bound
