\* MC.tla
SPECIFICATION Spec
CONSTANTS
  Inst = {"A", "B"}
  H = 4
  TTL = 12
  CHK = 10
  JIT <- JIT_S
  BO <- BO_S
  LAT = 1
  UT = 20
  VI = 0
  GRACE = 100
  MaxNow = 12
  NR = 1
  Prio <- Prio_AB
  TK <- TK_B
  HN <- HN2
  CONN <- AllFalse
  MaxStarts = 2
  MaxStops = 0
  MaxFaults = 0
  MaxOutside = 0
  MaxUnhealthy = 1
  MaxConnEv = 0
  MaxApi = 0
  StopKinds <- SK_Del
  OutKinds <- OK_Del
  Faults <- NoFaults
  Dev <- NoDev
CONSTRAINT NoOverflow
CHECK_DEADLOCK FALSE
INVARIANTS NoViolation C03_Bound C08_Mirror C09_Final C18_Consistent C19_Ctx
