------------------------------ MODULE ErrClass ------------------------------
(***************************************************************************)
(* C15  Error classification is total, exclusive and faithful to the NATS  *)
(* client.                                                                 *)
(*                                                                         *)
(* An error value is a finite term: a leaf wrapped by up to MaxWrap         *)
(* wrappers (innermost first).  What the classification can depend on is   *)
(* abstracted into two attributes of a term:                               *)
(*   Chain(t)  what errors.Is / errors.As can reach through Unwrap         *)
(*   Frags(t)  which of the classifier's text patterns occur in Error()    *)
(* Required(t) transcribes the property ("perm", "trans" or "either" where  *)
(* the statement leaves the class open), Impl(t) transcribes                *)
(* IsPermanentError / IsTransientError of leader/error.go.                  *)
(* ErrClassGen.tla enumerates all terms (and checks Impl against Required   *)
(* at design level); the harness builds the real Go value of every term,    *)
(* calls the two real predicates, and ErrClassCheck.tla judges the          *)
(* outcomes.                                                                *)
(***************************************************************************)
EXTENDS Integers, Sequences, FiniteSets, TLC, Json, IOUtils, SequencesExt

CONSTANT MaxWrap

\* text patterns of the classifier that leaves / wrappers can contain
PermPatterns == {"revision mismatch", "wrong last sequence", "key exists", "key not found", "permission denied",
                 "bucket not found", "access denied", "invalid", "authentication"}

\* leaf -> [tags (what Is/As finds), frags (patterns in its text)]
Leaf == [
  ErrNotLeader          |-> [tags |-> {}, frags |-> {}],
  ErrAlreadyStarted     |-> [tags |-> {}, frags |-> {}],
  ErrElectionFailed     |-> [tags |-> {}, frags |-> {}],
  ErrHeartbeatFailed    |-> [tags |-> {}, frags |-> {}],
  ErrConnectionLost     |-> [tags |-> {}, frags |-> {}],
  ErrTokenMismatch      |-> [tags |-> {}, frags |-> {}],
  ErrTokenInvalid       |-> [tags |-> {}, frags |-> {"invalid"}],
  ErrInvalidConfig      |-> [tags |-> {"InvalidConfig"}, frags |-> {"invalid"}],
  ErrBucketNotFound     |-> [tags |-> {"BucketNotFound"}, frags |-> {"bucket not found"}],
  ErrPermissionDenied   |-> [tags |-> {"PermissionDenied"}, frags |-> {"permission denied"}],
  Canceled              |-> [tags |-> {"canceled"}, frags |-> {}],
  DeadlineExceeded      |-> [tags |-> {"deadline"}, frags |-> {}],
  TimeoutError          |-> [tags |-> {"TimeoutError"}, frags |-> {}],
  ValidationErrorLeaf   |-> [tags |-> {"ValidationError"}, frags |-> {"invalid"}],
  nats_conflict         |-> [tags |-> {"nats_conflict"}, frags |-> {"wrong last sequence"}],
  nats_keyexists        |-> [tags |-> {"nats_keyexists"}, frags |-> {"wrong last sequence", "key exists"}],
  nats_keynotfound      |-> [tags |-> {}, frags |-> {"key not found"}],
  nats_timeout          |-> [tags |-> {"nats_timeout"}, frags |-> {}],
  nats_noresponders     |-> [tags |-> {"nats_noresponders"}, frags |-> {}],
  nats_connclosed       |-> [tags |-> {"nats_connclosed"}, frags |-> {}],
  nats_bucketnotfound   |-> [tags |-> {}, frags |-> {"bucket not found"}],
  nats_permviolation    |-> [tags |-> {}, frags |-> {}],
  text_neutral          |-> [tags |-> {}, frags |-> {}],
  text_revision         |-> [tags |-> {}, frags |-> {"revision mismatch"}],
  text_access           |-> [tags |-> {}, frags |-> {"access denied"}],
  text_auth             |-> [tags |-> {}, frags |-> {"authentication"}],
  text_timeoutword      |-> [tags |-> {}, frags |-> {}] ]
Leaves == DOMAIN Leaf

\* wrapper -> [tags it adds, frags its own text adds, opaque: hides the chain below it]
Wrap == [
  w          |-> [tags |-> {}, frags |-> {}, opaque |-> FALSE],              \* fmt.Errorf("while doing x: %w", e)
  w_invalid  |-> [tags |-> {}, frags |-> {"invalid"}, opaque |-> FALSE],     \* fmt.Errorf("invalid state: %w", e)
  election   |-> [tags |-> {}, frags |-> {}, opaque |-> FALSE],              \* &ElectionError{Err: e}
  tokenval   |-> [tags |-> {}, frags |-> {}, opaque |-> FALSE],              \* &TokenValidationError{Err: e}
  timeout    |-> [tags |-> {"TimeoutError"}, frags |-> {}, opaque |-> FALSE],\* &TimeoutError{Err: e}
  validation |-> [tags |-> {"ValidationError"}, frags |-> {"invalid"}, opaque |-> FALSE], \* &ValidationError{Err: e}
  join       |-> [tags |-> {}, frags |-> {}, opaque |-> FALSE],              \* errors.Join(e, errors.New("and more"))
  v          |-> [tags |-> {}, frags |-> {}, opaque |-> TRUE] ]              \* fmt.Errorf("failed: %v", e)
Wrappers == DOMAIN Wrap

WrapSeqs == UNION {[1..n -> Wrappers] : n \in 0..MaxWrap}
Terms == {[leaf |-> l, ws |-> ws] : l \in Leaves, ws \in WrapSeqs}

RECURSIVE ChainOf(_, _)
ChainOf(tags, ws) == IF ws = <<>> THEN tags
                     ELSE LET x == Wrap[Head(ws)] IN ChainOf((IF x.opaque THEN {} ELSE tags) \cup x.tags, Tail(ws))
Chain(t) == ChainOf(Leaf[t.leaf].tags, t.ws)
Frags(t) == Leaf[t.leaf].frags \cup UNION {Wrap[t.ws[k]].frags : k \in 1..Len(t.ws)}

\* ---- the property ----
TransMarks == {"canceled", "deadline", "TimeoutError"}
PermMarks  == {"InvalidConfig", "PermissionDenied", "BucketNotFound", "ValidationError"}
NatsTrans  == {"nats_timeout", "nats_noresponders", "nats_connclosed"}
NatsPerm   == {"nats_conflict", "nats_keyexists"}
\* the NATS clause speaks about the errors as the client returns them (also through the library's neutral wrappers)
Neutral(t) == \A k \in 1..Len(t.ws) : t.ws[k] \in {"w", "election", "tokenval"}
Required(t) ==
  LET c == Chain(t)
      T == c \cap TransMarks # {} \/ (Neutral(t) /\ c \cap NatsTrans # {})
      P == c \cap PermMarks # {} \/ (Neutral(t) /\ c \cap NatsPerm # {})
  IN IF T /\ ~P THEN "trans" ELSE IF P /\ ~T THEN "perm" ELSE "either"

\* ---- the code (leader/error.go) ----
ImplPerm(t) ==
  LET c == Chain(t) IN
  /\ "canceled" \notin c /\ "TimeoutError" \notin c /\ "deadline" \notin c
  /\ (Frags(t) \cap PermPatterns # {} \/ c \cap {"InvalidConfig", "PermissionDenied", "BucketNotFound"} # {})
Impl(t) == IF ImplPerm(t) THEN "perm" ELSE "trans"

ImplMeetsProperty == \A t \in Terms : Required(t) = "either" \/ Impl(t) = Required(t)
Disagreements == {t \in Terms : Required(t) # "either" /\ Impl(t) # Required(t)}

Row(t) == [leaf |-> t.leaf, ws |-> t.ws]
=============================================================================
