\* MC.tla
SPECIFICATION Spec
CONSTANTS
  Inst = {"A", "B"}
  H = 8
  TTL = 24
  CHK = 20
  JIT <- JIT_S
  BO <- BO_S
  LAT = 1
  UT = 40
  VI = 0
  GRACE = 100
  MaxNow = 30
  NR = 1
  Prio <- Prio_AB
  TK <- TK_B
  HN <- AllZero
  CONN <- AllFalse
  MaxStarts = 2
  MaxStops = 0
  MaxFaults = 0
  MaxOutside = 0
  MaxUnhealthy = 0
  MaxConnEv = 0
  MaxApi = 0
  StopKinds <- SK_Del
  OutKinds <- OK_Del
  Faults <- NoFaults
  Dev <- NoDev
CONSTRAINT NoOverflow
CHECK_DEADLOCK FALSE
INVARIANTS NoViolation C10_Prompt C03_Bound C08_Mirror C18_Consistent C19_Ctx
