------------------------------ MODULE RetryGen ------------------------------
EXTENDS Retry
ASSUME PrintT(<<"retry_scenarios", Cardinality(RetryScenarios), "breaker_scenarios", Cardinality(BreakerScenarios)>>)
ASSUME ExpectSane
ASSUME LET rs == SetToSeq(RetryScenarios) IN
       ndJsonSerialize(IOEnv.OUTR, [k \in 1..Len(rs) |-> [max |-> rs[k].max, outs |-> rs[k].outs, ckind |-> rs[k].cancel[1], cat |-> rs[k].cancel[2], thr |-> rs[k].thr]])
ASSUME LET bs == SetToSeq(BreakerScenarios) IN
       ndJsonSerialize(IOEnv.OUTB, [k \in 1..Len(bs) |-> [thr |-> bs[k].thr, gaps |-> [j \in 1..Len(bs[k].calls) |-> bs[k].calls[j][1]],
                                                                    outs |-> [j \in 1..Len(bs[k].calls) |-> bs[k].calls[j][2]]]])
VARIABLE x
Init == x = 0
Next == UNCHANGED x
=============================================================================
