//go:build verif

package harness

import (
	"context"
	"encoding/json"
	"fmt"
	"os"
	"runtime"
	"strconv"
	"strings"
	"sync"
	"testing"
	"testing/synctest"
	"time"

	"github.com/ali-assar/NATS-Leader-Election/leader"
	"github.com/nats-io/nats.go"
)

// C14: operation sequences generated from KVStore.tla executed (i) through the library's adapter against an
// embedded nats-server and (ii) on the harness' reference store.

type kvOp struct {
	Op   string `json:"op"`
	Key  string `json:"key"`
	Val  string `json:"val"`
	Exp  uint64 `json:"exp"`
	Sym  string `json:"sym"`
	Ok   bool   `json:"ok"`
	Rev  uint64 `json:"rev"`
	Rval string `json:"rval"`
	Err  string `json:"err"`
	// what the implementation answered
	GotOk  bool   `json:"got_ok"`
	GotRev uint64 `json:"got_rev"`
	GotVal string `json:"got_val"`
	GotErr string `json:"got_err"`
}

type kvEv struct {
	Kind string `json:"kind"`
	Val  string `json:"val"`
	Rev  uint64 `json:"rev"`
}

type kvSeq struct {
	Kind        string   `json:"kind"`
	Impl        string   `json:"impl"`
	N           int      `json:"n"`
	Ops         []kvOp   `json:"ops"`
	Watchers    [][]kvEv `json:"watchers"`
	GotWatchers [][]kvEv `json:"got_watchers"`
}

const kvTTL = time.Second

func record(o *kvOp, rev uint64, val []byte, err error) {
	o.GotOk = err == nil
	o.GotRev = rev
	o.GotVal = string(val)
	o.GotErr = errName(err)
}

// runOnAdapter executes one sequence on a fresh bucket through leader's NATS adapter.
func runOnAdapter(js nats.JetStreamContext, nc *nats.Conn, s kvSeq) (kvSeq, error) {
	bucket := fmt.Sprintf("c14_%d", s.N)
	if _, err := js.CreateKeyValue(&nats.KeyValueConfig{Bucket: bucket, TTL: kvTTL, Storage: nats.MemoryStorage, History: 16}); err != nil {
		return s, err
	}
	defer js.DeleteKeyValue(bucket)
	kv, err := leader.VerifNewNATSKeyValue(nc, bucket)
	if err != nil {
		return s, err
	}
	var ws []leader.Watcher
	for i := range s.Ops {
		o := &s.Ops[i]
		if len(ws) > 0 && (o.Op == "create" || o.Op == "update" || o.Op == "delete") {
			// a bucket with History 1 keeps only the latest message per key: a watcher that has not yet been
			// served a version when the next one is written never sees it (the server's doing, not the adapter's).
			// The test buckets keep 16 versions per key, and changes are paced like an election's.
			time.Sleep(15 * time.Millisecond)
		}
		switch o.Op {
		case "create":
			rev, err := kv.Create(o.Key, []byte(o.Val))
			record(o, rev, nil, err)
		case "update":
			rev, err := kv.Update(o.Key, []byte(o.Val), o.Exp)
			record(o, rev, nil, err)
		case "get":
			e, err := kv.Get(o.Key)
			if err == nil && e != nil {
				record(o, e.Revision(), e.Value(), nil)
			} else {
				record(o, 0, nil, err)
			}
		case "delete":
			record(o, 0, nil, kv.Delete(o.Key))
		case "expire":
			time.Sleep(kvTTL + 600*time.Millisecond)
			record(o, 0, nil, nil)
		case "watch":
			w, err := kv.Watch(o.Key)
			record(o, 0, nil, err)
			if err == nil {
				ws = append(ws, w)
			}
		}
	}
	time.Sleep(80 * time.Millisecond)
	s.GotWatchers = [][]kvEv{}
	for _, w := range ws {
		evs := []kvEv{}
	loop:
		for {
			// the consumer asks for the channel on every iteration, as the library's watch loop does
			select {
			case e, ok := <-w.Updates():
				if !ok {
					break loop
				}
				switch {
				case e == nil:
					evs = append(evs, kvEv{Kind: "nil"})
				case len(e.Value()) == 0:
					evs = append(evs, kvEv{Kind: "del", Rev: e.Revision()})
				default:
					evs = append(evs, kvEv{Kind: "val", Val: string(e.Value()), Rev: e.Revision()})
				}
			case <-time.After(120 * time.Millisecond):
				break loop
			}
		}
		w.Stop()
		s.GotWatchers = append(s.GotWatchers, evs)
	}
	return s, nil
}

func runOnRefStore(tr *Tracer, s kvSeq) kvSeq {
	tr.Reset(time.Now())
	w := NewDirectWorld(kvTTL, tr)
	var ws []*watcher
	for i := range s.Ops {
		o := &s.Ops[i]
		switch o.Op {
		case "expire":
			time.Sleep(kvTTL + 600*time.Millisecond)
			record(o, 0, nil, nil)
		default:
			it := w.Direct(o.Op, o.Key, []byte(o.Val), o.Exp)
			switch o.Op {
			case "get":
				if it.err == nil {
					record(o, it.ent.Revision(), it.ent.Value(), nil)
				} else {
					record(o, 0, nil, it.err)
				}
			case "delete":
				record(o, 0, nil, it.err)
			case "watch":
				record(o, 0, nil, it.err)
				ws = append(ws, it.wt)
			default:
				record(o, it.rev, nil, it.err)
			}
		}
	}
	s.GotWatchers = [][]kvEv{}
	for _, wt := range ws {
		evs := []kvEv{}
		for _, ev := range wt.Pending() {
			switch ev.kind {
			case "nil":
				evs = append(evs, kvEv{Kind: "nil"})
			case "del":
				evs = append(evs, kvEv{Kind: "del", Rev: ev.rev})
			default:
				evs = append(evs, kvEv{Kind: "val", Val: string(ev.val), Rev: ev.rev})
			}
		}
		s.GotWatchers = append(s.GotWatchers, evs)
	}
	return s
}

func TestKVContract(t *testing.T) {
	in, out := os.Getenv("VERIF_IN"), os.Getenv("VERIF_OUT")
	if in == "" || out == "" {
		t.Skip()
	}
	maxExpire, _ := strconv.Atoi(os.Getenv("VERIF_MAX_EXPIRE_SEQS"))
	offset, _ := strconv.Atoi(os.Getenv("VERIF_SEED"))
	var seqs []kvSeq
	readRows(t, in, func(line []byte) {
		var s kvSeq
		if err := json.Unmarshal(line, &s); err != nil {
			t.Fatal(err)
		}
		s.N = len(seqs)
		s.Kind = "seq"
		seqs = append(seqs, s)
	})
	w := newRowWriter(t, out)
	defer w.close()
	var mu sync.Mutex

	// (ii) reference store, virtual time, all sequences
	devnull, _ := os.OpenFile(os.DevNull, os.O_WRONLY, 0)
	defer devnull.Close()
	synctest.Test(t, func(t *testing.T) {
		tr := NewTracer(devnull)
		for _, s := range seqs {
			c := s
			c.Ops = append([]kvOp(nil), s.Ops...)
			c.Impl = "refstore"
			w.put(runOnRefStore(tr, c))
		}
	})

	// (i) the real adapter against an embedded server; sequences that wait for expiry are limited in number
	ctx, cancel := context.WithCancel(context.Background())
	defer cancel()
	srv, err := leader.StartEmbeddedNATSServer(ctx)
	if err != nil {
		t.Fatal(err)
	}
	defer srv.Shutdown()
	var todo []kvSeq
	nexp := 0
	for k := range seqs {
		s := seqs[(k+offset*7919)%len(seqs)]
		has := false
		for _, o := range s.Ops {
			if o.Op == "expire" {
				has = true
			}
		}
		if has {
			if maxExpire >= 0 && nexp >= maxExpire {
				continue
			}
			nexp++
		}
		todo = append(todo, s)
	}
	ch := make(chan kvSeq)
	var wg sync.WaitGroup
	for g := 0; g < 48; g++ {
		wg.Add(1)
		go func() {
			defer wg.Done()
			nc, err := nats.Connect(srv.ClientURL())
			if err != nil {
				t.Error(err)
				return
			}
			defer nc.Close()
			js, _ := nc.JetStream()
			for s := range ch {
				c := s
				c.Ops = append([]kvOp(nil), s.Ops...)
				c.Impl = "adapter"
				r, err := runOnAdapter(js, nc, c)
				if err != nil {
					t.Errorf("sequence %d: %v", s.N, err)
					continue
				}
				mu.Lock()
				w.put(r)
				mu.Unlock()
			}
		}()
	}
	for _, s := range todo {
		ch <- s
	}
	close(ch)
	wg.Wait()

	// one stable channel, no goroutine growth
	nc, err := nats.Connect(srv.ClientURL())
	if err != nil {
		t.Fatal(err)
	}
	defer nc.Close()
	js, _ := nc.JetStream()
	js.CreateKeyValue(&nats.KeyValueConfig{Bucket: "c14_stable", Storage: nats.MemoryStorage, History: 64})
	kv, err := leader.VerifNewNATSKeyValue(nc, "c14_stable")
	if err != nil {
		t.Fatal(err)
	}
	wt, err := kv.Watch("k")
	if err != nil {
		t.Fatal(err)
	}
	time.Sleep(50 * time.Millisecond)
	g0 := runtime.NumGoroutine()
	c0 := wt.Updates()
	same := true
	const N = 60 // fewer than the versions the bucket keeps per key: a lagging consumer cannot be skipped by the server
	rev, _ := kv.Create("k", []byte("0"))
	for i := 1; i < N; i++ {
		rev, _ = kv.Update("k", []byte(strconv.Itoa(i)), rev)
		time.Sleep(2 * time.Millisecond)
	}
	received := 0
	deadline := time.After(3 * time.Second)
collect:
	for received < N+1 {
		c := wt.Updates()
		if c != c0 {
			same = false
		}
		select {
		case _, ok := <-c:
			if !ok {
				break collect
			}
			received++
		case <-time.After(300 * time.Millisecond):
			break collect
		case <-deadline:
			break collect
		}
	}
	time.Sleep(50 * time.Millisecond)
	g1 := runtime.NumGoroutine()
	w.put(map[string]any{"kind": "watchstable", "impl": "adapter", "same_channel": same, "goroutine_growth": g1 - g0, "received": received, "expected": N + 1})
	wt.Stop()

	// watchers stopped while a notification is still on its way to the consumer: no forwarding goroutine stays behind
	const cycles = 12
	rev, _ = kv.Update("k", []byte("cycle-start"), rev)
	for i := 0; i < cycles; i++ {
		wc, err := kv.Watch("k")
		if err != nil {
			t.Fatal(err)
		}
		ch := wc.Updates()
	initial:
		for { // the current value and the end-of-initial-values marker
			select {
			case e := <-ch:
				if e == nil {
					break initial
				}
			case <-time.After(500 * time.Millisecond):
				break initial
			}
		}
		rev, _ = kv.Update("k", []byte("cycle-"+strconv.Itoa(i)), rev)
		time.Sleep(40 * time.Millisecond) // delivered to the adapter, not read by the consumer
		wc.Stop()
	}
	time.Sleep(200 * time.Millisecond)
	buf := make([]byte, 1<<20)
	buf = buf[:runtime.Stack(buf, true)]
	left := strings.Count(string(buf), "natsWatcherAdapter).Updates")
	w.put(map[string]any{"kind": "watchstable", "impl": "adapter-stop-with-notification-in-flight", "same_channel": true,
		"goroutine_growth": left, "received": cycles, "expected": cycles})
}
