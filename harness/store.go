package harness

import (
	"errors"
	"fmt"
	"time"

	"github.com/ali-assar/NATS-Leader-Election/leader"
	"github.com/nats-io/nats.go"
)

// ---- reference store: NATS JetStream KV semantics as measured against nats-server 2.12.2 ----
// bucket-wide sequence; tombstones; bucket MaxAge since last write (silent expiry);
// Create succeeds iff no live value; Update iff expected revision = last sequence of the key
// (tombstone revision counts, 0 when the key is absent/expired); Delete unconditional, always
// writes a tombstone; Get on tombstone/absent/expired -> nats.ErrKeyNotFound; a watch yields the
// current value or tombstone (if any), then the nil marker, then every change once, in order.
// The store is mutated by the driver goroutine only.

type rec struct {
	val    []byte
	rev    uint64
	at     time.Time
	tomb   bool
	writer string
}

type Store struct {
	seq      uint64
	maxAge   time.Duration
	data     map[string]*rec
	watchers []*watcher
	nextW    int
}

func NewStore(maxAge time.Duration) *Store {
	return &Store{maxAge: maxAge, data: map[string]*rec{}}
}

// cur returns the record of the key if it has not expired (a tombstone also expires).
func (s *Store) cur(key string, now time.Time) *rec {
	r := s.data[key]
	if r == nil {
		return nil
	}
	if s.maxAge > 0 && !now.Before(r.at.Add(s.maxAge)) {
		return nil
	}
	return r
}

func (s *Store) lastSeq(key string, now time.Time) uint64 {
	if r := s.cur(key, now); r != nil {
		return r.rev
	}
	return 0
}

func (s *Store) live(key string, now time.Time) *rec {
	if r := s.cur(key, now); r != nil && !r.tomb {
		return r
	}
	return nil
}

type entry struct {
	k string
	v []byte
	r uint64
}

func (e *entry) Key() string      { return e.k }
func (e *entry) Value() []byte    { return e.v }
func (e *entry) Revision() uint64 { return e.r }

type wev struct {
	kind string // nil | del | val
	key  string
	val  []byte
	rev  uint64
}

type watcher struct {
	id      int
	inst    string
	key     string
	ch      chan leader.Entry
	stopped bool
	handed  bool    // the Watch call that created it has returned it to the library
	queue   []*Item // pending deliveries, FIFO
}

func (w *watcher) Updates() <-chan leader.Entry { return w.ch }

// ---- error values: the NATS client's own ----

func errWrongLastSeq(last uint64) error {
	return &nats.APIError{Code: 400, ErrorCode: nats.JSErrCodeStreamWrongLastSequence,
		Description: fmt.Sprintf("wrong last sequence: %d", last)}
}

// errKeyExists reproduces kv.Create's wrapping: fmt.Errorf("%w: %s", apiErr, "key exists").
func errKeyExists(last uint64) error {
	return fmt.Errorf("%w: %s", errWrongLastSeq(last), "key exists")
}

// ErrClass maps a fault class name to the client error value.
func ErrClass(cls string) error {
	switch cls {
	case "timeout":
		return nats.ErrTimeout
	case "noresponders":
		return nats.ErrNoResponders
	case "connclosed":
		return nats.ErrConnectionClosed
	case "notfound":
		return nats.ErrKeyNotFound
	case "conflict":
		return errWrongLastSeq(7)
	case "keyexists":
		return errKeyExists(7)
	case "permission":
		return errors.New("nats: Permissions Violation for Publish to \"$KV.b.g\"")
	case "bucketnotfound":
		return nats.ErrBucketNotFound
	case "disconnected":
		return nats.ErrDisconnected
	case "other":
		return errors.New("nats: unexpected server response")
	}
	return errors.New("nats: " + cls)
}

// errName classifies an error for the trace (no verdict depends on the text).
func errName(err error) string {
	switch {
	case err == nil:
		return "none"
	case errors.Is(err, nats.ErrKeyExists) && err.Error() != errWrongLastSeq(0).Error() && hasSuffix(err.Error(), "key exists"):
		return "keyexists"
	case errors.Is(err, nats.ErrKeyExists):
		return "conflict"
	case errors.Is(err, nats.ErrKeyNotFound):
		return "notfound"
	case errors.Is(err, nats.ErrTimeout):
		return "timeout"
	case errors.Is(err, nats.ErrNoResponders):
		return "noresponders"
	case errors.Is(err, nats.ErrConnectionClosed):
		return "connclosed"
	}
	return "other"
}

func hasSuffix(s, suf string) bool { return len(s) >= len(suf) && s[len(s)-len(suf):] == suf }
