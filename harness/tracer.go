package harness

import (
	"encoding/json"
	"os"
	"sync"
	"sync/atomic"
	"time"
)

// Tracer appends one JSON object per line. Every observer (store, metrics, callbacks,
// health checker, driver) calls Emit after its state change and before returning to the
// library, under the tracer's mutex, which also assigns the global sequence number.
type Tracer struct {
	mu    sync.Mutex
	f     *os.File
	seq   int
	t0    time.Time
	toks  map[string]int
	event chan struct{} // wakes the driver (non-blocking send)
	n     atomic.Int64
}

func NewTracer(f *os.File) *Tracer {
	return &Tracer{f: f, toks: map[string]int{"": 0}}
}

// Reset starts a new scenario: sequence numbers restart, time origin is now.
func (tr *Tracer) Reset(t0 time.Time) {
	tr.mu.Lock()
	defer tr.mu.Unlock()
	tr.seq = 0
	tr.t0 = t0
	tr.toks = map[string]int{"": 0}
	tr.event = make(chan struct{}, 1) // created inside the bubble so that waiting on it is durable blocking
}

// Tok interns a token string to a small integer (0 = empty).
func (tr *Tracer) Tok(s string) int {
	tr.mu.Lock()
	defer tr.mu.Unlock()
	return tr.tokLocked(s)
}

func (tr *Tracer) tokLocked(s string) int {
	if v, ok := tr.toks[s]; ok {
		return v
	}
	v := len(tr.toks)
	tr.toks[s] = v
	return v
}

type KV = map[string]any

func (tr *Tracer) NowUs() int64 { return int64(time.Since(tr.t0) / time.Microsecond) }

func (tr *Tracer) Emit(inst, ev string, kv KV) {
	tr.mu.Lock()
	tr.seq++
	m := make(map[string]any, len(kv)+4)
	for k, v := range kv {
		m[k] = v
	}
	m["seq"] = tr.seq
	m["t"] = int64(time.Since(tr.t0) / time.Microsecond)
	m["i"] = inst
	m["ev"] = ev
	b, _ := json.Marshal(m)
	b = append(b, '\n')
	tr.f.Write(b)
	ch := tr.event
	tr.mu.Unlock()
	tr.n.Add(1)
	select {
	case ch <- struct{}{}:
	default:
	}
}

// Raw writes a line outside any scenario clock (used by the watchdog, real time).
func (tr *Tracer) Raw(m map[string]any) {
	tr.mu.Lock()
	defer tr.mu.Unlock()
	b, _ := json.Marshal(m)
	tr.f.Write(append(b, '\n'))
}
