package harness

import (
	"context"
	"encoding/json"
	"fmt"
	"go.uber.org/zap"
	"math/rand"
	"runtime"
	"sort"
	"strconv"
	"strings"
	"sync"
	"sync/atomic"
	"testing/synctest"
	"time"

	"github.com/ali-assar/NATS-Leader-Election/leader"
	"github.com/nats-io/nats.go"
	"github.com/prometheus/client_golang/prometheus"
)

const never = int64(1) << 60

// Item is something waiting for the driver's decision: a store operation before
// application ("pre"), an applied operation before its answer ("post"), or a watch delivery.
type Item struct {
	id       int
	inst     string
	kind     string
	src      string
	key      string
	val      []byte
	exp      uint64
	phase    string
	issuedUs int64
	dueUs    int64
	held     bool
	fault    string
	ord      [4]int // ordinals under (kind,src) (kind,*) (*,src) (*,*)
	// result
	ok    bool
	rev   uint64
	ent   leader.Entry
	wt    *watcher
	err   error
	plain string // the refusal's text in the plain dialect (set by apply for the store's own refusals)
	done  chan struct{}
	// delivery
	ev wev
}

type Inst struct {
	cfg InstCfg
	el  leader.Election
	h   *Handle
	nc  *nats.Conn
	// freeGate: a scheduler gate held outside every critical section (gate_free)
	freeGate chan struct{}
	// startCancel cancels the context given to the latest Start call
	startCancel    context.CancelFunc
	np, nd         atomic.Int32
	gauge          atomic.Int32
	healthIdx      int
	partition      string
	lastSnap       string
	apiBusy        atomic.Int32
	lockHeld       atomic.Int32
	transGateCount atomic.Int32
	gate           chan struct{}
	group          string
}

type prog struct {
	steps    []Step
	idx      int
	resumeUs int64
	held     *Item
	release  string
}

type World struct {
	sc          *Scenario
	tr          *Tracer
	st          *Store
	rng         *rand.Rand
	mu          sync.Mutex
	items       []*Item
	nextID      int
	counts      map[string]int
	insts       map[string]*Inst
	order       []string
	progs       []*prog
	whens       []*Step
	fired       map[*Step]bool
	closing     bool
	strict      bool
	notFollowed int
	rootCtx     context.Context
	cancel      context.CancelFunc
	expAt       map[string]int64 // key -> rev*0+time of scheduled expiry notification
	expRev      map[string]uint64
	beat        *atomic.Int64
}

// ---------- handle: what the election sees as its KeyValue ----------

type Handle struct {
	w    *World
	inst string
}

type jsCtx struct{ h *Handle }

func (j jsCtx) KeyValue(string) (leader.KeyValue, error) { return j.h, nil }

type provider struct{ h *Handle }

func (p provider) JetStream() (leader.JetStreamContext, error) { return jsCtx{p.h}, nil }

type connProvider struct {
	provider
	nc *nats.Conn
}

func (p connProvider) NATSConnection() *nats.Conn { return p.nc }

// roundID returns the id of the calling goroutine if it runs an acquisition round (attemptAcquireWithRetry), else 0.
func roundID(all []string) int64 {
	isRound := false
	for _, fn := range all {
		if strings.HasSuffix(fn, "/leader.(*kvElection).attemptAcquireWithRetry") {
			isRound = true
		}
	}
	if !isRound {
		return 0
	}
	var buf [64]byte
	n := runtime.Stack(buf[:], false) // "goroutine 123 [running]:"
	f := strings.Fields(string(buf[:n]))
	if len(f) < 2 {
		return 0
	}
	id, _ := strconv.ParseInt(f[1], 10, 64)
	return id
}

func callerSrc() (string, int, int64) {
	pcs := make([]uintptr, 64)
	n := runtime.Callers(3, pcs)
	frames := runtime.CallersFrames(pcs[:n])
	src := ""
	depth := 0
	var all []string
	for {
		f, more := frames.Next()
		all = append(all, f.Function)
		if !more {
			break
		}
	}
	for _, fn := range all {
		if strings.HasSuffix(fn, "/leader.(*kvElection).attemptAcquire") {
			depth++
		}
	}
	for _, fn := range all {
		more := true
		if strings.Contains(fn, "/leader.(*kvElection).") {
			switch {
			case strings.Contains(fn, "heartbeatLoop"):
				return "hb", depth, 0
			case strings.Contains(fn, "validateToken"):
				return "validate", depth, 0
			case strings.Contains(fn, "verifyLeadershipAfterReconnect"):
				return "verify", depth, 0
			case strings.Contains(fn, "checkKeyAndReelect"):
				return "check", depth, 0
			case strings.Contains(fn, "attemptPriorityTakeover"):
				return "takeover", depth, roundID(all)
			case strings.Contains(fn, "attemptAcquire"):
				if src == "" {
					src = "acq"
				}
			case strings.Contains(fn, "watchLoop"):
				return "watch", depth, 0
			case strings.Contains(fn, "StopWithContext"):
				return "stop", depth, 0
			}
		}
		_ = more
	}
	if src == "" {
		src = "other"
	}
	return src, depth, roundID(all)
}

func (h *Handle) issue(kind, key string, val []byte, exp uint64) *Item {
	w := h.w
	src, depth, round := callerSrc()
	w.mu.Lock()
	w.nextID++
	it := &Item{id: w.nextID, inst: h.inst, kind: kind, src: src, key: key, val: val, exp: exp,
		phase: "pre", done: make(chan struct{}, 1)}
	w.number(it)
	now := w.tr.NowUs()
	it.issuedUs = now
	w.decide(it, now)
	w.items = append(w.items, it)
	w.mu.Unlock()
	kv := KV{"op": it.id, "kind": kind, "src": src, "key": key, "exp": int64(exp), "depth": depth, "round": round}
	w.describeVal(kv, val, kind == "create" || kind == "update")
	w.tr.Emit(h.inst, "op_issue", kv)
	return it
}

func (h *Handle) Create(key string, val []byte, _ ...interface{}) (uint64, error) {
	it := h.issue("create", key, val, 0)
	<-it.done
	return it.rev, h.w.outErr(it)
}

func (h *Handle) Update(key string, val []byte, rev uint64, _ ...interface{}) (uint64, error) {
	it := h.issue("update", key, val, rev)
	<-it.done
	return it.rev, h.w.outErr(it)
}

func (h *Handle) Get(key string) (leader.Entry, error) {
	it := h.issue("get", key, nil, 0)
	<-it.done
	if it.err != nil {
		return nil, h.w.outErr(it)
	}
	return it.ent, nil
}

// outErr is the error value handed to the library: the store's own refusals in the scenario's dialect.
func (w *World) outErr(it *Item) error {
	if it.err == nil || w.sc.ErrDialect != "plain" || it.plain == "" {
		return it.err
	}
	return fmt.Errorf("%s", it.plain)
}

func (h *Handle) Delete(key string) error {
	it := h.issue("delete", key, nil, 0)
	<-it.done
	return it.err
}

func (h *Handle) Watch(key string, _ ...interface{}) (leader.Watcher, error) {
	it := h.issue("watch", key, nil, 0)
	<-it.done
	if it.err != nil {
		return nil, it.err
	}
	h.w.mu.Lock()
	it.wt.handed = true
	h.w.mu.Unlock()
	return &watchHandle{w: h.w, wt: it.wt}, nil
}

type watchHandle struct {
	w  *World
	wt *watcher
}

func (wh *watchHandle) Updates() <-chan leader.Entry { return wh.wt.ch }
func (wh *watchHandle) Stop() {
	wh.w.mu.Lock()
	already := wh.wt.stopped
	wh.wt.stopped = true
	wh.w.mu.Unlock()
	if !already {
		wh.w.tr.Emit(wh.wt.inst, "w_stop", KV{"w": wh.wt.id})
	}
}

// describeVal adds the decoded payload (or its class) to an event.
func (w *World) describeVal(kv KV, val []byte, has bool) {
	if !has {
		kv["cls"] = "none"
		kv["id"] = ""
		kv["tok"] = 0
		kv["prio"] = 0
		return
	}
	kv["id"] = ""
	kv["tok"] = 0
	kv["prio"] = 0
	if len(val) == 0 {
		kv["cls"] = "empty"
		return
	}
	var m map[string]any
	if err := json.Unmarshal(val, &m); err != nil || m == nil {
		kv["cls"] = "malformed"
		return
	}
	kv["cls"] = "object"
	if f, ok := m["priority"].(float64); ok && f == float64(int(f)) && f > -1e9 && f < 1e9 {
		kv["prio"] = int(f)
	}
	id, okID := m["id"].(string)
	tok, okTok := m["token"].(string)
	if okID {
		kv["id"] = id
	}
	if okTok {
		kv["tok"] = w.tr.Tok(tok)
	}
	if okID && okTok {
		kv["cls"] = "payload"
	}
}

// number assigns the ordinals used by Match (caller holds w.mu).
func (w *World) number(it *Item) {
	keys := [4]string{it.inst + "|" + it.kind + "|" + it.src, it.inst + "|" + it.kind + "|", it.inst + "||" + it.src, it.inst + "||"}
	for k, key := range keys {
		w.counts[key]++
		it.ord[k] = w.counts[key]
	}
}

func (m *Match) ordinal(it *Item) int {
	switch {
	case m.Kind != "" && m.Src != "":
		return it.ord[0]
	case m.Kind != "":
		return it.ord[1]
	case m.Src != "":
		return it.ord[2]
	}
	return it.ord[3]
}

func (m *Match) matches(it *Item) bool {
	if m.I != "" && m.I != it.inst {
		return false
	}
	if m.Kind != "" && m.Kind != it.kind {
		return false
	}
	if m.Kind == "" && it.kind == "deliver" {
		return false
	}
	if m.Src != "" && m.Src != it.src {
		return false
	}
	return true
}

func (w *World) lat() int64 {
	if w.sc.LatMaxUs <= w.sc.LatMinUs {
		return w.sc.LatMinUs
	}
	return w.sc.LatMinUs + w.rng.Int63n(w.sc.LatMaxUs-w.sc.LatMinUs+1)
}

func (w *World) wlat() int64 {
	if w.sc.WatchMaxUs <= w.sc.WatchMinUs {
		return w.sc.WatchMinUs
	}
	return w.sc.WatchMinUs + w.rng.Int63n(w.sc.WatchMaxUs-w.sc.WatchMinUs+1)
}

// decide fixes latency and fault of a freshly issued item (caller holds w.mu).
func (w *World) decide(it *Item, now int64) {
	it.dueUs = now + w.lat()
	if w.strict && !w.closing {
		it.held = true
		return
	}
	if w.closing {
		it.fault = "fail:connclosed"
		it.dueUs = now
		return
	}
	for i := range w.sc.Rules {
		r := &w.sc.Rules[i]
		if !r.Match.matches(it) {
			continue
		}
		o := r.Match.ordinal(it)
		cnt := r.Count
		if cnt == 0 {
			cnt = 1 << 30
		}
		from := r.FromNth
		if from == 0 {
			from = 1
		}
		if o >= from && o < from+cnt {
			if strings.HasPrefix(r.Fault, "slow:") {
				us, _ := strconv.ParseInt(r.Fault[5:], 10, 64)
				it.dueUs = now + us
			} else {
				it.fault = r.Fault
			}
		}
	}
	if in := w.insts[it.inst]; in != nil && in.partition != "" && it.kind != "deliver" {
		switch in.partition {
		case "closed":
			it.fault = "fail:connclosed"
		case "hang":
			it.fault = "hang"
		default:
			it.fault = "timeout"
		}
	}
}

// ---------- observers ----------

type metrics struct {
	w  *World
	in *Inst
}

func (m metrics) SetIsLeader(v float64, _ prometheus.Labels) {
	m.in.gauge.Store(int32(v))
	m.w.tr.Emit(m.in.cfg.ID, "m_isleader", KV{"v": int(v)})
}
func (m metrics) SetConnectionStatus(v float64, _ prometheus.Labels) {
	m.w.tr.Emit(m.in.cfg.ID, "m_conn", KV{"v": int(v)})
}
func (m metrics) IncTransitions(l prometheus.Labels) {
	m.w.tr.Emit(m.in.cfg.ID, "m_trans", KV{"from": l["from_state"], "to": l["to_state"]})
	if m.in.cfg.GateTransTo != "" && l["to_state"] == m.in.cfg.GateTransTo && !m.w.closing && m.in.transGateCount.Add(1) == int32(max(1, m.in.cfg.GateTransNth)) {
		// a scheduler gate inside the critical section that publishes the transition (see ObserveLeaderDuration)
		ch := make(chan struct{})
		m.w.mu.Lock()
		m.in.gate = ch
		m.w.mu.Unlock()
		m.in.lockHeld.Add(1)
		m.w.tr.Emit(m.in.cfg.ID, "gate", KV{"where": "trans_to:" + l["to_state"], "leader": m.in.el.IsLeader()})
		<-ch
		m.in.lockHeld.Add(-1)
	}
}
func (m metrics) IncFailures(l prometheus.Labels) {
	m.w.tr.Emit(m.in.cfg.ID, "m_fail", KV{"type": l["error_type"]})
}
func (m metrics) IncAcquireAttempts(l prometheus.Labels) {
	m.w.tr.Emit(m.in.cfg.ID, "m_acq", KV{"status": l["status"]})
}
func (m metrics) IncTokenValidationFailures(prometheus.Labels) {
	m.w.tr.Emit(m.in.cfg.ID, "m_tokfail", nil)
}
func (m metrics) ObserveHeartbeatDuration(_ time.Duration, l prometheus.Labels) {
	m.w.tr.Emit(m.in.cfg.ID, "m_hb", KV{"status": l["status"]})
}
func (m metrics) ObserveLeaderDuration(d time.Duration, _ prometheus.Labels) {
	m.w.tr.Emit(m.in.cfg.ID, "m_ldur", KV{"us": int64(d / time.Microsecond)})
	// in Stop / StopWithContext this callback runs inside the critical section, before the leader flag is cleared
	if m.in.cfg.GateStopMetric && m.in.apiBusy.Load() > 0 && !m.w.closing {
		// a scheduler gate: the election's mutex is held by our caller; the driver releases the gate with a
		// release_gate step (and must not call Status() meanwhile)
		ch := make(chan struct{})
		m.w.mu.Lock()
		m.in.gate = ch
		m.w.mu.Unlock()
		m.in.lockHeld.Add(1)
		m.w.tr.Emit(m.in.cfg.ID, "gate", KV{"where": "stop_leader_duration", "leader": m.in.el.IsLeader()})
		<-ch
		m.in.lockHeld.Add(-1)
	}
}

type health struct {
	w  *World
	in *Inst
}

func (h health) Check(ctx context.Context) bool {
	in := h.in
	h.w.mu.Lock()
	idx := in.healthIdx
	in.healthIdx++
	h.w.mu.Unlock()
	c := byte('h')
	if idx < len(in.cfg.Health) {
		c = in.cfg.Health[idx]
	} else if in.cfg.HealthRest != "" {
		c = in.cfg.HealthRest[(idx-len(in.cfg.Health))%len(in.cfg.HealthRest)]
	}
	dl := int64(-1)
	if d, ok := ctx.Deadline(); ok {
		dl = int64(time.Until(d) / time.Microsecond)
	}
	res := c == 'h' || c == 'S' || c == 'x'
	h.w.tr.Emit(in.cfg.ID, "health", KV{"n": idx + 1, "res": res, "dl": dl, "slow": c == 's' || c == 'S' || c == 'x', "hang": c == 'x'})
	if c == 's' || c == 'S' {
		<-ctx.Done()
		h.w.tr.Emit(in.cfg.ID, "health_done", KV{"n": idx + 1})
	}
	if c == 'x' { // a checker that ignores its context and hangs (then reports healthy)
		time.Sleep(us(in.cfg.HealthHangUs))
		h.w.tr.Emit(in.cfg.ID, "health_done", KV{"n": idx + 1})
	}
	return res
}

// ---------- world ----------

func NewWorld(sc *Scenario, tr *Tracer, beat *atomic.Int64) *World {
	w := &World{sc: sc, tr: tr, rng: rand.New(rand.NewSource(sc.Seed)), counts: map[string]int{},
		insts: map[string]*Inst{}, fired: map[*Step]bool{}, expRev: map[string]uint64{}, beat: beat}
	return w
}

func us(d int64) time.Duration { return time.Duration(d) * time.Microsecond }

func (w *World) setup() error {
	sc := w.sc
	if sc.BucketTTLUs == 0 {
		sc.BucketTTLUs = sc.TTLUs
	}
	if sc.PartTimeoutUs == 0 {
		sc.PartTimeoutUs = 5_000_000
	}
	w.st = NewStore(us(sc.BucketTTLUs))
	w.rootCtx, w.cancel = context.WithCancel(context.Background())
	instInfo := map[string]any{}
	for _, c := range sc.Insts {
		in := &Inst{cfg: c}
		in.h = &Handle{w: w, inst: c.ID}
		h, ttl := sc.HUs, sc.TTLUs
		if c.HUs > 0 {
			h = c.HUs
		}
		if c.TTLUs > 0 {
			ttl = c.TTLUs
		}
		group := c.Group
		if group == "" {
			group = "g"
		}
		in.group = group
		cfg := leader.ElectionConfig{Bucket: "b", Group: group, InstanceID: c.ID,
			TTL: us(ttl), HeartbeatInterval: us(h), ValidationInterval: us(c.ViUs),
			DisconnectGracePeriod: us(c.GraceUs), Priority: c.Prio, AllowPriorityTakeover: c.Takeover,
			Metrics: metrics{w, in}}
		if c.GateLog != "" {
			cfg.Logger = &gateLogger{w: w, in: in}
		}
		if c.HealthN >= 0 {
			cfg.HealthChecker = health{w, in}
			cfg.MaxConsecutiveFailures = c.HealthN
		}
		var prov leader.JetStreamProvider = provider{in.h}
		if c.Conn {
			in.nc = &nats.Conn{}
			prov = connProvider{provider{in.h}, in.nc}
		}
		el, err := leader.NewElection(prov, cfg)
		if err != nil {
			return fmt.Errorf("NewElection %s: %w", c.ID, err)
		}
		in.el = el
		if !c.NoCallbacks {
			el.OnPromote(func(ctx context.Context, tok string) {
				term := int(in.np.Add(1))
				w.tr.Emit(c.ID, "promote", KV{"tok": w.tr.Tok(tok), "term": term, "ctx_err": ctx.Err() != nil, "blocks": !c.PromoteReturn && !c.PromotePanic})
				if c.PromotePanic {
					panic("OnPromote callback of the application panics")
				}
				if !c.PromoteReturn {
					<-ctx.Done()
					w.tr.Emit(c.ID, "ctx_done", KV{"term": term})
					if c.PromoteDrainUs > 0 {
						time.Sleep(us(c.PromoteDrainUs))
					}
				}
			})
			el.OnDemote(func() {
				in.nd.Add(1)
				w.tr.Emit(c.ID, "demote", nil)
				if c.DemoteCallsStop && !w.closing {
					// the application reacts to the demotion by shutting the election down, from inside the callback
					w.tr.Emit(c.ID, "stop_call", KV{"variant": "stop", "del": false, "wait": false, "timeout": 0, "ctx": 0})
					in.apiBusy.Add(1)
					err := in.el.Stop()
					in.apiBusy.Add(-1)
					w.tr.Emit(c.ID, "stop_ret", KV{"variant": "stop", "ok": err == nil, "err": apiErr(err)})
				}
				if c.DemoteDurUs > 0 {
					time.Sleep(us(c.DemoteDurUs))
					w.tr.Emit(c.ID, "demote_done", nil)
				}
			})
		}
		w.insts[c.ID] = in
		w.order = append(w.order, c.ID)
		hn := c.HealthN
		grace := c.GraceUs
		if grace == 0 {
			grace = 3 * h
			if grace < 5_000_000 {
				grace = 5_000_000
			}
		}
		vi := c.ViUs
		if vi == 0 {
			vi = 5_000_000
		}
		instInfo[c.ID] = map[string]any{"prio": c.Prio, "tk": c.Takeover, "hn": hn, "conn": c.Conn,
			"grace": grace, "vi": vi, "group": group, "h": h, "ttl": ttl, "cb": !c.NoCallbacks, "ddur": c.DemoteDurUs}
	}
	slowMax := int64(0)
	for _, r := range sc.Rules {
		if r.Match.Kind == "deliver" && strings.HasPrefix(r.Fault, "slow:") {
			if v, _ := strconv.ParseInt(r.Fault[5:], 10, 64); v > slowMax {
				slowMax = v
			}
		}
	}
	sc.slowMax = slowMax
	w.tr.Emit("env", "reset", KV{"name": sc.Name, "h": sc.HUs, "ttl": sc.TTLUs, "bttl": sc.BucketTTLUs,
		"insts": instInfo, "ids": w.order, "family": sc.Family, "origin": sc.Origin,
		"lat_max": sc.LatMaxUs, "watch_max": sc.WatchMaxUs + sc.slowMax, "end": sc.EndUs, "ptimeout": sc.PartTimeoutUs})
	for i := range sc.Steps {
		s := &sc.Steps[i]
		if s.When != nil {
			w.whens = append(w.whens, s)
		} else {
			w.progs = append(w.progs, &prog{steps: []Step{*s}, resumeUs: s.AtUs})
		}
	}
	sort.SliceStable(w.progs, func(a, b int) bool { return w.progs[a].resumeUs < w.progs[b].resumeUs })
	return nil
}

func (w *World) wait() {
	synctest.Wait()
	w.beat.Add(1)
	select {
	case <-w.tr.event:
	default:
	}
}

func (w *World) snapAll(force bool) {
	for _, id := range w.order {
		in := w.insts[id]
		if in.lockHeld.Load() > 0 {
			continue
		}
		st := in.el.Status()
		tok := w.tr.Tok(in.el.Token())
		kv := KV{"leader": in.el.IsLeader(), "sleader": st.IsLeader, "state": st.State, "lid": in.el.LeaderID(), "slid": st.LeaderID,
			"tok": tok, "stok": w.tr.Tok(st.Token), "rev": int64(st.Revision), "gauge": int(in.gauge.Load()),
			"np": int(in.np.Load()), "nd": int(in.nd.Load()), "busy": int(in.apiBusy.Load())}
		b, _ := json.Marshal(kv)
		if force || string(b) != in.lastSnap {
			in.lastSnap = string(b)
			w.tr.Emit(id, "snap", kv)
		}
	}
}

// Run executes the scenario inside the current synctest bubble.
func (w *World) Run() (leaked int) {
	w.tr.Reset(time.Now())
	if err := w.setup(); err != nil {
		w.tr.Emit("env", "setup_error", KV{"err": err.Error()})
		w.tr.Emit("env", "end", nil)
		return 0
	}
	end := w.sc.EndUs
	if len(w.sc.Script) > 0 {
		w.runScript()
	}
	for iter := 0; ; iter++ {
		if w.gateHeld() {
			// a library goroutine is parked inside a critical section by a scheduler gate: other library goroutines may be
			// blocked on that mutex (not a durable block), so synctest.Wait must not be called until the gate is released
			w.runGateRelease()
			continue
		}
		w.wait()
		w.snapAll(false)
		now := w.tr.NowUs()
		if now >= end {
			break
		}
		if iter > 2_000_000 {
			w.tr.Emit("env", "driver_overrun", nil)
			break
		}
		if w.stepExpiry(now) || w.stepWhen(now) || w.stepProg(now) || w.stepItem(now) {
			continue
		}
		next := end
		for _, p := range w.progs {
			if p.resumeUs < next {
				next = p.resumeUs
			}
		}
		w.mu.Lock()
		for _, it := range w.items {
			if !it.held && it.dueUs < next && w.releasable(it) {
				next = it.dueUs
			}
		}
		w.mu.Unlock()
		for _, t := range w.expAt {
			if t < next {
				next = t
			}
		}
		d := next - now
		if d <= 0 {
			d = 1
		}
		tm := time.NewTimer(us(d))
		select {
		case <-w.tr.event:
			tm.Stop()
		case <-tm.C:
		}
	}
	w.snapAll(true)
	w.tr.Emit("env", "end", nil)
	return w.cleanup()
}

func (w *World) releasable(it *Item) bool {
	if it.kind == "deliver" {
		// FIFO per watcher; deliveries to a partitioned instance wait for the heal
		if len(it.wt.queue) == 0 || it.wt.queue[0] != it {
			return false
		}
		if in := w.insts[it.inst]; in != nil && in.partition != "" {
			return false
		}
	}
	return true
}

// stepExpiry emits the expire event at the instant a record lapses.
func (w *World) stepExpiry(now int64) bool {
	for key, r := range w.st.data {
		if w.st.maxAge <= 0 {
			continue
		}
		at := int64(r.at.Sub(w.tr.t0)/time.Microsecond) + int64(w.st.maxAge/time.Microsecond)
		if w.expRev[key] == r.rev {
			continue // already announced
		}
		if now >= at {
			w.expRev[key] = r.rev
			delete(w.expAt, key)
			w.tr.Emit("env", "expire", KV{"key": key, "rev": int64(r.rev), "tomb": r.tomb})
			return true
		}
		if w.expAt == nil {
			w.expAt = map[string]int64{}
		}
		w.expAt[key] = at
	}
	return false
}

func (w *World) stepWhen(now int64) bool {
	w.mu.Lock()
	var hit *Step
	var hitItem *Item
	for _, s := range w.whens {
		if w.fired[s] {
			continue
		}
		ph := s.When.Phase
		if ph == "" {
			ph = "pre"
		}
		for _, it := range w.items {
			if it.held || it.phase != ph || !s.When.matches(it) {
				continue
			}
			if s.When.Nth != 0 && s.When.ordinal(it) != s.When.Nth {
				continue
			}
			hit, hitItem = s, it
			break
		}
		if hit != nil {
			break
		}
	}
	if hit == nil {
		w.mu.Unlock()
		return false
	}
	w.fired[hit] = true
	hitItem.held = true
	w.mu.Unlock()
	w.tr.Emit("env", "hold", KV{"op": hitItem.id, "phase": hitItem.phase})
	steps := append([]Step{*hit}, hit.Then...)
	w.progs = append(w.progs, &prog{steps: steps, resumeUs: now, held: hitItem, release: hit.Release})
	return true
}

func (w *World) stepProg(now int64) bool {
	for pi, p := range w.progs {
		if p.resumeUs > now {
			continue
		}
		if p.idx < len(p.steps) {
			s := p.steps[p.idx]
			p.idx++
			if s.Do == "sleep" {
				p.resumeUs = now + s.Us
			} else {
				w.exec(&s, now)
			}
			return true
		}
		// program finished: release the held operation
		w.progs = append(w.progs[:pi], w.progs[pi+1:]...)
		if it := p.held; it != nil {
			w.mu.Lock()
			it.held = false
			switch {
			case p.release == "" || p.release == "normal":
				it.dueUs = now + w.lat()
			case p.release == "now":
				it.dueUs = now
			default:
				it.dueUs = now
				if it.phase == "pre" {
					it.fault = p.release
				} else if p.release == "lose_ack" || p.release == "timeout" {
					it.fault = "lose_ack"
				}
			}
			w.mu.Unlock()
		}
		return true
	}
	return false
}

// stepItem releases the earliest due item.
func (w *World) stepItem(now int64) bool {
	w.mu.Lock()
	var best *Item
	for _, it := range w.items {
		if it.held || it.dueUs > now || !w.releasable(it) {
			continue
		}
		if best == nil || it.dueUs < best.dueUs || (it.dueUs == best.dueUs && it.id < best.id) {
			best = it
		}
	}
	w.mu.Unlock()
	if best == nil {
		return false
	}
	w.release(best, now)
	return true
}

func (w *World) remove(it *Item) {
	w.mu.Lock()
	for i, x := range w.items {
		if x == it {
			w.items = append(w.items[:i], w.items[i+1:]...)
			break
		}
	}
	w.mu.Unlock()
}

func (w *World) release(it *Item, now int64) {
	if it.kind == "deliver" {
		w.deliver(it)
		return
	}
	if it.phase == "pre" {
		switch {
		case it.fault == "hang":
			w.mu.Lock()
			it.dueUs = never
			w.mu.Unlock()
			w.tr.Emit(it.inst, "op_hang", KV{"op": it.id})
			return
		case it.fault == "timeout":
			// never applied; the client gives up after its request time-out
			it.err = nats.ErrTimeout
			it.phase = "post"
			w.mu.Lock()
			it.dueUs = it.issuedUs + w.sc.PartTimeoutUs
			if it.dueUs < now {
				it.dueUs = now
			}
			w.mu.Unlock()
			w.tr.Emit(it.inst, "op_fail", KV{"op": it.id, "kind": it.kind, "key": it.key, "err": "timeout"})
			return
		case strings.HasPrefix(it.fault, "fail:"):
			cls := it.fault[5:]
			it.err = ErrClass(cls)
			it.phase = "post"
			w.mu.Lock()
			it.dueUs = now + w.lat()
			if w.closing {
				it.dueUs = now
			}
			w.mu.Unlock()
			w.tr.Emit(it.inst, "op_fail", KV{"op": it.id, "kind": it.kind, "key": it.key, "err": cls})
			return
		}
		w.apply(it, now)
		it.phase = "post"
		w.mu.Lock()
		if it.fault == "lose_ack" {
			it.dueUs = it.issuedUs + w.sc.PartTimeoutUs
			if it.dueUs < now {
				it.dueUs = now
			}
		} else {
			it.dueUs = now + w.lat()
		}
		w.mu.Unlock()
		return
	}
	// post: answer
	if it.fault == "lose_ack" {
		it.err = nats.ErrTimeout
		it.rev = 0
		it.ent = nil
		it.wt = nil
	}
	w.remove(it)
	if it.src == "hb" && it.err != nil && it.fault == "" {
		// a refresh refused by the store (not an injected fault or a late answer): the next quiescent point is recorded even if nothing visible changes
		// (the monitor judges "demoted at the completion of the next heartbeat attempt" there)
		if in := w.insts[it.inst]; in != nil {
			in.lastSnap = ""
		}
	}
	w.tr.Emit(it.inst, "op_resp", KV{"op": it.id, "kind": it.kind, "src": it.src, "ok": it.err == nil, "err": errName(it.err),
		"rev": int64(it.rev), "lat": now - it.issuedUs, "lost": it.fault == "lose_ack"})
	it.done <- struct{}{}
}

// apply executes the operation on the store (driver goroutine).
func (w *World) apply(it *Item, nowUs int64) {
	now := time.Now()
	s := w.st
	kv := KV{"op": it.id, "kind": it.kind, "src": it.src, "key": it.key, "exp": int64(it.exp)}
	prevLive := s.live(it.key, now) != nil
	switch it.kind {
	case "create":
		if r := s.live(it.key, now); r != nil {
			it.err = errKeyExists(r.rev)
			it.plain = "key already exists"
		} else {
			w.write(it.key, it.val, it.inst, false, now)
			it.rev = s.seq
		}
	case "update":
		if last := s.lastSeq(it.key, now); last != it.exp {
			it.err = errWrongLastSeq(last)
			it.plain = "revision mismatch"
			if s.live(it.key, now) == nil {
				it.plain = "key not found"
			}
		} else {
			w.write(it.key, it.val, it.inst, false, now)
			it.rev = s.seq
		}
	case "get":
		if r := s.live(it.key, now); r != nil {
			it.ent = &entry{it.key, r.val, r.rev}
			it.rev = r.rev
			w.describeVal(kv, r.val, true)
		} else {
			it.err = nats.ErrKeyNotFound
			it.plain = "key not found"
		}
	case "delete":
		w.write(it.key, nil, it.inst, true, now)
		it.rev = s.seq
	case "watch":
		s.nextW++
		wt := &watcher{id: s.nextW, inst: it.inst, key: it.key, ch: make(chan leader.Entry, 1024)}
		s.watchers = append(s.watchers, wt)
		it.wt = wt
		kv["w"] = wt.id
		if r := s.cur(it.key, now); r != nil {
			if r.tomb {
				w.enqueue(wt, wev{kind: "del", key: it.key, rev: r.rev}, nowUs)
			} else {
				w.enqueue(wt, wev{kind: "val", key: it.key, val: r.val, rev: r.rev}, nowUs)
			}
		}
		w.enqueue(wt, wev{kind: "nil", key: it.key}, nowUs)
	}
	it.ok = it.err == nil
	kv["ok"] = it.ok
	kv["rev"] = int64(it.rev)
	kv["err"] = errName(it.err)
	kv["was_live"] = prevLive
	kv["lost"] = it.fault == "lose_ack"
	if it.kind == "create" || it.kind == "update" {
		w.describeVal(kv, it.val, true)
	} else if it.kind != "get" || it.err != nil {
		w.describeVal(kv, nil, false)
	}
	w.tr.Emit(it.inst, "op_apply", kv)
}

// write performs a mutation and notifies the watchers of the key.
func (w *World) write(key string, val []byte, writer string, tomb bool, now time.Time) {
	s := w.st
	s.seq++
	s.data[key] = &rec{val: val, rev: s.seq, at: now, tomb: tomb, writer: writer}
	nowUs := w.tr.NowUs()
	for _, wt := range s.watchers {
		if wt.stopped || wt.key != key {
			continue
		}
		if tomb {
			w.enqueue(wt, wev{kind: "del", key: key, rev: s.seq}, nowUs)
		} else {
			w.enqueue(wt, wev{kind: "val", key: key, val: val, rev: s.seq}, nowUs)
		}
	}
}

func (w *World) enqueue(wt *watcher, ev wev, nowUs int64) {
	w.mu.Lock()
	w.nextID++
	it := &Item{id: w.nextID, inst: wt.inst, kind: "deliver", key: ev.key, wt: wt, ev: ev, phase: "pre"}
	w.number(it)
	it.issuedUs = nowUs
	it.dueUs = nowUs + w.wlat()
	// rules for deliveries
	for i := range w.sc.Rules {
		r := &w.sc.Rules[i]
		if r.Match.Kind != "deliver" || !r.Match.matches(it) {
			continue
		}
		o := r.Match.ordinal(it)
		cnt := r.Count
		if cnt == 0 {
			cnt = 1 << 30
		}
		from := r.FromNth
		if from == 0 {
			from = 1
		}
		if o >= from && o < from+cnt {
			if strings.HasPrefix(r.Fault, "slow:") {
				us, _ := strconv.ParseInt(r.Fault[5:], 10, 64)
				it.dueUs = nowUs + us
			} else {
				it.fault = r.Fault
			}
		}
	}
	if w.strict && !w.closing {
		it.held = true
	}
	// FIFO: never earlier than the previous delivery of this watcher
	if n := len(wt.queue); n > 0 && wt.queue[n-1].dueUs > it.dueUs {
		it.dueUs = wt.queue[n-1].dueUs
	}
	wt.queue = append(wt.queue, it)
	w.items = append(w.items, it)
	w.mu.Unlock()
}

func (w *World) deliver(it *Item) {
	wt := it.wt
	w.mu.Lock()
	wt.queue = wt.queue[1:]
	stopped := wt.stopped
	w.mu.Unlock()
	w.remove(it)
	kv := KV{"w": wt.id, "kind": it.ev.kind, "rev": int64(it.ev.rev), "key": it.ev.key}
	w.describeVal(kv, it.ev.val, it.ev.kind == "val")
	if stopped {
		return
	}
	if it.fault == "drop" {
		w.tr.Emit(wt.inst, "w_drop", kv)
		return
	}
	var e leader.Entry
	switch it.ev.kind {
	case "val":
		e = &entry{it.ev.key, it.ev.val, it.ev.rev}
	case "del":
		e = &entry{it.ev.key, nil, it.ev.rev}
	}
	w.tr.Emit(wt.inst, "w_deliver", kv)
	select {
	case wt.ch <- e:
	default:
		w.tr.Emit("env", "harness_error", KV{"what": "watch channel full"})
	}
}

// ---------- driver steps ----------

func outsideValue(cls string, w *World) []byte {
	switch cls {
	case "empty":
		return []byte{}
	case "notjson":
		return []byte("not json at all {")
	case "null":
		return []byte("null")
	case "array":
		return []byte(`["a","b"]`)
	case "number":
		return []byte("42")
	case "string":
		return []byte(`"leader"`)
	case "wrongtypes":
		return []byte(`{"id":7,"token":{"x":1},"priority":"high"}`)
	case "idnum":
		return []byte(`{"id":7,"token":"t-outside"}`)
	case "toknum":
		return []byte(`{"id":"X","token":12}`)
	case "missingid":
		return []byte(`{"token":"t-outside","priority":1}`)
	case "missingtoken":
		return []byte(`{"id":"X","priority":1}`)
	case "emptyobj":
		return []byte(`{}`)
	case "huge":
		return []byte(`{"id":"X","token":"t-outside","pad":"` + strings.Repeat("x", 1<<20) + `"}`)
	case "prionegative":
		return []byte(`{"id":"X","token":"t-outside","priority":-5}`)
	case "priohuge":
		return []byte(`{"id":"X","token":"t-outside","priority":1000000}`)
	case "truncated":
		return []byte(`{"id":"X","tok`)
	case "other":
		return []byte(`{"id":"X","token":"t-outside","priority":0}`)
	case "shorttok":
		return []byte(`{"id":"X","token":"abc"}`)
	case "tok1":
		return []byte(`{"id":"X","token":"a","priority":1}`)
	case "tok7":
		return []byte(`{"id":"X","token":"1234567"}`)
	case "emptytok":
		return []byte(`{"id":"X","token":""}`)
	case "emptyid":
		return []byte(`{"id":"","token":"t-outside"}`)
	case "longtok":
		return []byte(`{"id":"X","token":"` + strings.Repeat("t", 4096) + `"}`)
	case "unicode":
		return []byte(`{"id":"Ünï\u0000code","token":"tök\n\"en"}`)
	case "nested":
		return []byte(`{"id":{"a":["X"]},"token":["t"],"priority":{"p":1}}`)
	case "dupkeys":
		return []byte(`{"id":"X","id":"Y","token":"t1","token":"t2"}`)
	case "priofloat":
		return []byte(`{"id":"X","token":"t-outside","priority":1.5}`)
	}
	if strings.HasPrefix(cls, "as:") { // well-formed payload naming an instance with a foreign token
		return []byte(`{"id":"` + cls[3:] + `","token":"t-forged"}`)
	}
	if strings.HasPrefix(cls, "asshort:") { // the same with a token shorter than any the library writes
		return []byte(`{"id":"` + cls[8:] + `","token":"x1"}`)
	}
	if strings.HasPrefix(cls, "raw:") {
		return []byte(cls[4:])
	}
	if strings.HasPrefix(cls, "owntrail_") {
		// the bytes the current owner wrote (its id and current token), followed by more bytes: not a JSON document
		var cur []byte
		if r := w.st.cur("g", time.Now()); r != nil && !r.tomb {
			cur = append(cur, r.val...)
		}
		switch cls {
		case "owntrail_obj":
			return append(cur, []byte(`{"id":"X","token":"t-outside"}`)...)
		case "owntrail_comma":
			return append(cur, []byte(`,"x":1}`)...)
		default:
			return append(cur, []byte(` trailing bytes`)...)
		}
	}
	return []byte(cls)
}

func (w *World) exec(s *Step, now int64) {
	in := w.insts[s.I]
	switch s.Do {
	case "noop":
	case "start":
		w.tr.Emit(s.I, "start_call", nil)
		in.apiBusy.Add(1)
		ctx, cancel := context.WithCancel(w.rootCtx)
		w.mu.Lock()
		in.startCancel = cancel
		w.mu.Unlock()
		go func() {
			err := in.el.Start(ctx)
			in.apiBusy.Add(-1)
			w.tr.Emit(s.I, "start_ret", KV{"ok": err == nil, "err": apiErr(err)})
		}()
	case "stop":
		w.tr.Emit(s.I, "stop_call", KV{"variant": "stop", "del": false, "wait": false, "timeout": 0, "ctx": 0})
		in.apiBusy.Add(1)
		go func() {
			err := in.el.Stop()
			in.apiBusy.Add(-1)
			w.tr.Emit(s.I, "stop_ret", KV{"variant": "stop", "ok": err == nil, "err": apiErr(err)})
		}()
	case "stopctx":
		w.tr.Emit(s.I, "stop_call", KV{"variant": "ctx", "del": s.Del, "wait": s.Wait, "timeout": s.TimeoutUs, "ctx": s.CtxUs})
		in.apiBusy.Add(1)
		go func() {
			ctx, cancel := w.mkctx(s.CtxUs)
			defer cancel()
			err := in.el.StopWithContext(ctx, leader.StopOptions{DeleteKey: s.Del, WaitForDemote: s.Wait, Timeout: us(s.TimeoutUs)})
			in.apiBusy.Add(-1)
			w.tr.Emit(s.I, "stop_ret", KV{"variant": "ctx", "ok": err == nil, "err": apiErr(err)})
		}()
	case "validate":
		call := "v"
		if s.Vod {
			call = "vod"
		}
		w.mu.Lock()
		w.nextID++
		cid := w.nextID
		w.mu.Unlock()
		w.tr.Emit(s.I, "val_call", KV{"call": call, "cid": cid, "ctx": s.CtxUs, "leader": in.el.IsLeader(), "tok": w.tr.Tok(in.el.Token())})
		in.apiBusy.Add(1)
		go func() {
			ctx, cancel := w.mkctx(s.CtxUs)
			defer cancel()
			var ok bool
			var err error
			if s.Vod {
				ok = in.el.ValidateTokenOrDemote(ctx)
			} else {
				ok, err = in.el.ValidateToken(ctx)
			}
			in.apiBusy.Add(-1)
			w.tr.Emit(s.I, "val_ret", KV{"call": call, "cid": cid, "ok": ok, "err": err != nil, "leader": in.el.IsLeader()})
		}()
	case "disc":
		w.tr.Emit(s.I, "disc", nil)
		if in.nc != nil {
			if cb := in.nc.Opts.DisconnectedCB; cb != nil {
				go cb(in.nc)
			}
		}
	case "reconn":
		w.tr.Emit(s.I, "reconn", nil)
		if in.nc != nil {
			if cb := in.nc.ReconnectHandler(); cb != nil {
				go cb(in.nc)
			}
		}
	case "closed":
		w.tr.Emit(s.I, "closed", nil)
		if in.nc != nil {
			if cb := in.nc.ClosedHandler(); cb != nil {
				go cb(in.nc)
			}
		}
	case "partition":
		mode := s.Mode
		if mode == "" {
			mode = "timeout"
		}
		w.mu.Lock()
		in.partition = mode
		for _, it := range w.items { // operations not yet applied are lost too
			if it.inst == s.I && it.kind != "deliver" && it.phase == "pre" && !it.held {
				it.fault = map[string]string{"timeout": "timeout", "hang": "hang", "closed": "fail:connclosed"}[mode]
			} else if it.inst == s.I && it.kind != "deliver" && it.phase == "post" && it.fault == "" {
				it.fault = "lose_ack"
				if mode == "hang" {
					it.dueUs = never
				} else {
					it.dueUs = it.issuedUs + w.sc.PartTimeoutUs
				}
			}
		}
		w.mu.Unlock()
		w.tr.Emit(s.I, "partition", KV{"mode": mode})
	case "heal":
		w.mu.Lock()
		in.partition = ""
		// requests swallowed by the partition fail with the client's time-out at the latest now
		for _, it := range w.items {
			if it.inst == s.I && it.kind != "deliver" && it.dueUs == never && !it.held {
				if it.phase == "pre" {
					it.fault = "timeout"
				}
				it.dueUs = now
			}
		}
		w.mu.Unlock()
		w.tr.Emit(s.I, "heal", nil)
	case "out_put":
		key := s.Key
		if key == "" {
			key = "g"
		}
		val := outsideValue(s.Cls, w)
		w.write(key, val, "outside", false, time.Now())
		kv := KV{"key": key, "ocls": s.Cls, "rev": int64(w.st.seq)}
		w.describeVal(kv, val, true)
		w.tr.Emit("env", "out_put", kv)
	case "out_del":
		key := s.Key
		if key == "" {
			key = "g"
		}
		w.write(key, nil, "outside", true, time.Now())
		w.tr.Emit("env", "out_del", KV{"key": key, "rev": int64(w.st.seq)})
	case "cancel_start_ctx": // the application cancels the context it gave to Start (without calling Stop)
		w.tr.Emit(s.I, "start_ctx_cancelled", nil)
		w.mu.Lock()
		c := in.startCancel
		w.mu.Unlock()
		if c != nil {
			c()
		}
	case "release_gate":
		w.mu.Lock()
		ch := in.gate
		in.gate = nil
		fch := in.freeGate
		in.freeGate = nil
		w.mu.Unlock()
		if ch != nil {
			close(ch)
		}
		if fch != nil {
			close(fch)
		}
	case "set_health":
		w.mu.Lock()
		in.cfg.HealthRest = s.Cls
		in.cfg.Health = in.cfg.Health[:min(len(in.cfg.Health), in.healthIdx)]
		w.mu.Unlock()
	case "set_lat":
		w.sc.LatMinUs, w.sc.LatMaxUs = s.Us, s.TimeoutUs
	default:
		w.tr.Emit("env", "harness_error", KV{"what": "unknown step " + s.Do})
	}
}

func (w *World) mkctx(ctxUs int64) (context.Context, context.CancelFunc) {
	switch {
	case ctxUs > 0:
		return context.WithTimeout(context.Background(), us(ctxUs))
	case ctxUs < 0:
		ctx, cancel := context.WithCancel(context.Background())
		cancel()
		return ctx, cancel
	}
	return context.WithCancel(context.Background())
}

func apiErr(err error) string {
	switch {
	case err == nil:
		return "none"
	case err == leader.ErrAlreadyStarted:
		return "already_started"
	case err == leader.ErrAlreadyStopped:
		return "already_stopped"
	case err == context.Canceled:
		return "ctx_cancelled"
	case err == context.DeadlineExceeded:
		return "ctx_deadline"
	case strings.Contains(err.Error(), "timeout"):
		return "timeout"
	}
	return "other"
}

// cleanup ends all library activity so that the bubble can be left; returns the number of
// library goroutines that are still alive afterwards (they would be a leak).
func (w *World) cleanup() int {
	w.mu.Lock()
	w.closing = true
	for _, in := range w.insts {
		in.partition = ""
	}
	for _, it := range w.items {
		it.held = false
		it.dueUs = 0
		if it.kind != "deliver" && it.phase == "pre" {
			it.fault = "fail:connclosed"
		}
	}
	w.mu.Unlock()
	w.progs = nil
	w.whens = nil
	for _, in := range w.insts {
		if in.gate != nil {
			close(in.gate)
			in.gate = nil
		}
		if in.freeGate != nil {
			close(in.freeGate)
			in.freeGate = nil
		}
	}
	for _, id := range w.order {
		in := w.insts[id]
		go func() { _ = in.el.Stop() }()
	}
	w.cancel()
	for round := 0; round < 400; round++ {
		w.wait()
		now := w.tr.NowUs()
		progress := false
		for w.stepItem(now) {
			progress = true
			w.wait()
		}
		if !progress && round > 40 && libGoroutines() == 0 {
			break
		}
		time.Sleep(500 * time.Millisecond)
	}
	w.wait()
	n := libGoroutines()
	// every instance has been stopped: a watcher the store handed to the library and the library never stopped is left behind
	open := 0
	w.mu.Lock()
	for _, wt := range w.st.watchers {
		if wt.handed && !wt.stopped {
			open++
		}
	}
	w.mu.Unlock()
	w.tr.Emit("env", "final", KV{"leaked": n, "wopen": open})
	return n
}

// libGoroutines counts goroutines currently executing library code.
func libGoroutines() int {
	buf := make([]byte, 1<<20)
	n := runtime.Stack(buf, true)
	cnt := 0
	for _, g := range strings.Split(string(buf[:n]), "\n\n") {
		if strings.Contains(g, "NATS-Leader-Election/leader.") {
			cnt++
		}
	}
	return cnt
}

// LibStacks returns the stacks of goroutines inside library code (for hang reports).
func LibStacks() []string {
	buf := make([]byte, 4<<20)
	n := runtime.Stack(buf, true)
	var out []string
	for _, g := range strings.Split(string(buf[:n]), "\n\n") {
		if strings.Contains(g, "NATS-Leader-Election/leader.") {
			var fr []string
			for _, l := range strings.Split(g, "\n") {
				if strings.Contains(l, "leader.") || strings.HasPrefix(l, "goroutine ") || strings.Contains(l, "sync.") {
					if !strings.HasPrefix(l, "\t") {
						fr = append(fr, strings.TrimSpace(l))
					}
				}
			}
			out = append(out, strings.Join(fr, " <- "))
		}
	}
	return out
}

// ---- direct access to the reference store (C14: the reference store is checked against KVStore.tla too) ----

// NewDirectWorld returns a world without instances whose store can be driven operation by operation.
func NewDirectWorld(maxAge time.Duration, tr *Tracer) *World {
	w := &World{sc: &Scenario{}, tr: tr, rng: rand.New(rand.NewSource(1)), counts: map[string]int{},
		insts: map[string]*Inst{}, fired: map[*Step]bool{}, expRev: map[string]uint64{}, beat: new(atomic.Int64)}
	w.st = NewStore(maxAge)
	return w
}

// Direct applies one operation at once and returns the item carrying its result.
func (w *World) Direct(kind, key string, val []byte, exp uint64) *Item {
	w.nextID++
	it := &Item{id: w.nextID, inst: "X", kind: kind, src: "direct", key: key, val: val, exp: exp, phase: "pre", done: make(chan struct{}, 1)}
	w.apply(it, w.tr.NowUs())
	return it
}

// Pending returns the events queued for a watcher, in order.
func (wt *watcher) Pending() []wev {
	var out []wev
	for _, it := range wt.queue {
		out = append(out, it.ev)
	}
	return out
}

// ---- strict mode: a script (usually a TLC behaviour) decides every release ----

func (w *World) findItem(st *SStep) *Item {
	w.mu.Lock()
	defer w.mu.Unlock()
	var best *Item
	for _, it := range w.items {
		if it.inst != st.I {
			continue
		}
		switch st.Do {
		case "deliver", "drop":
			if it.kind != "deliver" || len(it.wt.queue) == 0 || it.wt.queue[0] != it || it.wt.stopped {
				continue
			}
		default:
			if it.kind == "deliver" || it.kind != st.Kind {
				continue
			}
			wantPhase := "pre"
			if st.Do == "respond" || st.Do == "lose_ack" {
				wantPhase = "post"
			}
			if it.phase != wantPhase {
				continue
			}
			if st.Src != "" && it.src != st.Src {
				continue
			}
			if st.Tok != 0 && (it.kind == "create" || it.kind == "update") {
				kv := KV{}
				w.describeVal(kv, it.val, true)
				if kv["tok"] != st.Tok {
					continue
				}
			}
		}
		if best == nil || it.id < best.id {
			best = it
		}
	}
	return best
}

func (w *World) sleepEventOr(us int64) {
	if us <= 0 {
		us = 1
	}
	tm := time.NewTimer(time.Duration(us) * time.Microsecond)
	select {
	case <-w.tr.event:
		tm.Stop()
	case <-tm.C:
	}
}

func (w *World) runScript() {
	w.strict = true
	// operations issued before the script started (none normally)
	aborted := false
	for si := range w.sc.Script {
		if aborted {
			break
		}
		st := &w.sc.Script[si]
		w.wait()
		w.snapAll(false)
		now := w.tr.NowUs()
		w.stepExpiry(now)
		switch st.Do {
		case "advance":
			if len(st.Exp) > 0 {
				w.tr.Emit("env", "script_at", KV{"step": si, "exp": st.Exp})
			}
			for w.tr.NowUs() < st.ToUs {
				w.sleepEventOr(st.ToUs - w.tr.NowUs())
				w.wait()
				w.stepExpiry(w.tr.NowUs())
				w.snapAll(false)
			}
		case "apply", "respond", "fail", "lose_ack", "deliver", "drop":
			var it *Item
			waited := int64(0)
			for {
				if it = w.findItem(st); it != nil || waited > 400_000 {
					break
				}
				w.sleepEventOr(5000)
				waited += 5000
				w.wait()
				w.stepExpiry(w.tr.NowUs())
			}
			if it == nil {
				// the real code did not do what the model behaviour predicts here: stop following the script
				w.notFollowed++
				w.tr.Emit("env", "script_miss", KV{"step": si, "do": st.Do, "who": st.I, "kind": st.Kind, "src": st.Src, "act": st.Act})
				aborted = true
				continue
			}
			now = w.tr.NowUs()
			w.mu.Lock()
			it.held = false
			it.dueUs = now
			switch st.Do {
			case "fail":
				it.fault = "fail:" + st.Cls
			case "lose_ack":
				it.fault = "lose_ack"
			case "drop":
				it.fault = "drop"
			}
			w.mu.Unlock()
			if st.Do == "lose_ack" {
				it.err = nats.ErrTimeout
			}
			w.release(it, now)
			// after an apply the operation waits (held) for its respond step; after a fail likewise
			w.mu.Lock()
			if it.kind != "deliver" && it.phase == "post" && (st.Do == "apply" || st.Do == "fail") {
				it.held = true
			}
			w.mu.Unlock()
		default:
			s := Step{Do: st.Do, I: st.I, Del: st.Del, Wait: st.Wait, Vod: st.Vod, Cls: st.Cls, CtxUs: st.CtxUs, Mode: "hang"}
			w.exec(&s, now)
		}
	}
	w.wait()
	w.snapAll(true)
	// what the store holds now, for the comparison with the model's prediction
	sr := KV{"missed": w.notFollowed, "steps": len(w.sc.Script), "rec_kind": "absent", "aborted": aborted}
	w.describeVal(sr, nil, false)
	if r := w.st.cur("g", time.Now()); r != nil {
		if r.tomb {
			sr["rec_kind"] = "tomb"
		} else {
			sr["rec_kind"] = "val"
			w.describeVal(sr, r.val, true)
		}
	}
	w.tr.Emit("env", "script_end", sr)
	// continue under the latency policy
	w.strict = false
	now := w.tr.NowUs()
	w.mu.Lock()
	for _, it := range w.items {
		if it.held {
			it.held = false
			if it.kind == "deliver" {
				it.dueUs = now + w.wlat()
			} else {
				it.dueUs = now + w.lat()
			}
		}
	}
	w.mu.Unlock()
}

// gateLogger blocks the library goroutine that logs the configured message (once) until the driver releases the gate.
type gateLogger struct {
	w    *World
	in   *Inst
	used atomic.Bool
}

func (g *gateLogger) at(msg string) {
	if msg != g.in.cfg.GateLog || g.w.closing || !g.used.CompareAndSwap(false, true) {
		return
	}
	ch := make(chan struct{})
	g.w.mu.Lock()
	g.in.gate = ch
	g.w.mu.Unlock()
	if g.in.cfg.GateFree {
		// the line is known to sit outside every critical section: the driver goes on as usual while the goroutine waits
		g.w.mu.Lock()
		g.in.gate = nil
		g.in.freeGate = ch
		g.w.mu.Unlock()
		g.w.tr.Emit(g.in.cfg.ID, "gate", KV{"where": "log:" + msg, "leader": g.in.el.IsLeader()})
		<-ch
		return
	}
	g.in.lockHeld.Add(1) // the line may sit inside the election's critical section: no Status() calls meanwhile
	g.w.tr.Emit(g.in.cfg.ID, "gate", KV{"where": "log:" + msg, "leader": g.in.el.IsLeader()})
	<-ch
	g.in.lockHeld.Add(-1)
}
func (g *gateLogger) Debug(msg string, _ ...zap.Field) { g.at(msg) }
func (g *gateLogger) Info(msg string, _ ...zap.Field)  { g.at(msg) }
func (g *gateLogger) Warn(msg string, _ ...zap.Field)  { g.at(msg) }
func (g *gateLogger) Error(msg string, _ ...zap.Field) { g.at(msg) }
func (g *gateLogger) Fatal(msg string, _ ...zap.Field) { g.at(msg) }

func (w *World) gateHeld() bool {
	w.mu.Lock()
	defer w.mu.Unlock()
	for _, in := range w.insts {
		if in.gate != nil {
			return true
		}
	}
	return false
}

// runGateRelease sleeps (without synctest.Wait) until the next release_gate step is due and executes it.
func (w *World) runGateRelease() {
	w.beat.Add(1)
	var next *prog
	for _, p := range w.progs {
		if p.idx < len(p.steps) && p.steps[p.idx].Do == "release_gate" && (next == nil || p.resumeUs < next.resumeUs) {
			next = p
		}
	}
	now := w.tr.NowUs()
	if next == nil || next.resumeUs > w.sc.EndUs {
		// nobody will release it: do it now
		for _, id := range w.order {
			w.exec(&Step{Do: "release_gate", I: id}, now)
		}
		return
	}
	if d := next.resumeUs - now; d > 0 {
		time.Sleep(us(d))
	}
	// connection notifications and stop calls scheduled for the very instant of the release (listed before it) are issued
	// first, and their goroutines get to run up to their first blocking point while the gate is still held
	for _, p := range w.progs {
		if p == next || p.idx >= len(p.steps) || p.resumeUs != next.resumeUs {
			continue
		}
		if d := p.steps[p.idx].Do; d == "disc" || d == "reconn" || d == "closed" || d == "stop" || d == "stopctx" {
			st := p.steps[p.idx]
			p.idx++
			w.exec(&st, w.tr.NowUs())
			for i := 0; i < 20; i++ {
				runtime.Gosched()
			}
		}
	}
	// ... and so is the answer of a store operation that a finished "when" program releases at that very instant
	for pi := 0; pi < len(w.progs); pi++ {
		p := w.progs[pi]
		if p == next || p.idx < len(p.steps) || p.held == nil || p.release != "now" || p.resumeUs != next.resumeUs {
			continue
		}
		w.progs = append(w.progs[:pi], w.progs[pi+1:]...)
		pi--
		it := p.held
		w.mu.Lock()
		it.held = false
		it.dueUs = w.tr.NowUs()
		w.mu.Unlock()
		w.release(it, w.tr.NowUs())
		for i := 0; i < 20; i++ {
			runtime.Gosched()
		}
	}
	// ... and the operation held by the very program whose last step releases the gate
	if next.held != nil && next.release == "now" && next.idx == len(next.steps)-1 {
		it := next.held
		next.held = nil
		w.mu.Lock()
		it.held = false
		it.dueUs = w.tr.NowUs()
		w.mu.Unlock()
		w.release(it, w.tr.NowUs())
		for i := 0; i < 20; i++ {
			runtime.Gosched()
		}
	}
	st := next.steps[next.idx]
	next.idx++
	w.exec(&st, w.tr.NowUs())
}
