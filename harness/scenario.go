package harness

import "encoding/json"

// Scenario is one schedule: configuration of the instances, store latency policy,
// timed / event-triggered driver steps and fault rules. Times are virtual microseconds.
type Scenario struct {
	Name  string `json:"name"`
	Seed  int64  `json:"seed"`
	HUs   int64  `json:"h_us"`
	TTLUs int64  `json:"ttl_us"`
	// BucketTTLUs is the bucket MaxAge of the store (what NATS enforces); defaults to TTLUs.
	BucketTTLUs int64     `json:"bucket_ttl_us"`
	Insts       []InstCfg `json:"insts"`
	LatMinUs    int64     `json:"lat_min_us"`
	LatMaxUs    int64     `json:"lat_max_us"`
	WatchMinUs  int64     `json:"watch_min_us"`
	WatchMaxUs  int64     `json:"watch_max_us"`
	// PartTimeoutUs: how long a partitioned / timed-out operation takes to fail (client request time-out).
	PartTimeoutUs int64 `json:"part_timeout_us"`
	// ErrDialect "plain": the store's own refusals carry the plain texts of a simple KeyValue implementation (the
	// repository's mock: "key already exists", "key not found", "revision mismatch") instead of the NATS client's values.
	ErrDialect string `json:"err_dialect"`
	Steps      []Step `json:"steps"`
	Rules      []Rule `json:"rules"`
	EndUs      int64  `json:"end_us"`
	Family     string `json:"family"`
	// Tags are free-form (generator name, origin of the schedule); copied into the reset event.
	Origin string `json:"origin"`
	// Script: strict mode. Every store operation and watch delivery is held until a script step releases it;
	// after the script the scenario continues under the latency policy until EndUs.
	Script []SStep `json:"script,omitempty"`
	// Expect: the state the model predicts at the end of the script (compared by the orchestrator; opaque here).
	Expect json.RawMessage `json:"expect,omitempty"`

	slowMax int64
}

type InstCfg struct {
	ID       string `json:"id"`
	Group    string `json:"group"`
	Prio     int    `json:"prio"`
	Takeover bool   `json:"takeover"`
	// HealthN: -1 no checker, 0 checker with default threshold, >0 threshold.
	HealthN int `json:"health_n"`
	// Health: per-call results, 'h' healthy, 'u' unhealthy, 's' slow (blocks until the context
	// expires, then unhealthy), 'S' slow then healthy. After the string is used up: HealthRest.
	Health     string `json:"health"`
	HealthRest string `json:"health_rest"`
	// HealthHangUs: how long a result 'x' hangs, ignoring the context, before it reports healthy.
	HealthHangUs int64 `json:"health_hang_us"`
	Conn         bool  `json:"conn"`
	GraceUs      int64 `json:"grace_us"`
	ViUs         int64 `json:"vi_us"`
	// DemoteDurUs: how long the OnDemote callback takes.
	DemoteDurUs int64 `json:"demote_dur_us"`
	// PromoteReturn: the OnPromote callback returns at once instead of blocking on its context.
	PromoteReturn bool `json:"promote_return"`
	NoCallbacks   bool `json:"no_callbacks"`
	// PromoteDrainUs: how long the OnPromote callback takes to return after its context was cancelled (winding down leader work).
	PromoteDrainUs int64 `json:"promote_drain_us"`
	// GateStopMetric: the metrics callback recording the leadership duration inside Stop's critical section (before
	// the leader flag is cleared) blocks until a release_gate step: a scheduler gate that lets a timer fire while
	// Stop holds the election's lock.
	GateStopMetric bool `json:"gate_stop_metric"`
	// GateTransTo: the metrics callback counting the state transition to this state (it runs inside the critical section
	// that publishes the transition) blocks until a release_gate step (the first such transition only).
	GateTransTo string `json:"gate_trans_to"`
	// GateTransNth: which transition to that state is gated (default: the first).
	GateTransNth int `json:"gate_trans_nth"`
	// PromotePanic: the OnPromote callback panics (after it was recorded). DemoteCallsStop: the OnDemote callback calls Stop().
	PromotePanic    bool `json:"promote_panic"`
	DemoteCallsStop bool `json:"demote_calls_stop"`
	// GateLog: the library goroutine that emits a log line with this message blocks there until a release_gate step
	// (a scheduler gate at any logged step of the library; the first occurrence only)
	GateLog string `json:"gate_log"`
	// GateFree: the gated log line sits outside every critical section of the library; the driver keeps going while it is held
	GateFree bool  `json:"gate_free"`
	HUs      int64 `json:"h_us"`
	TTLUs    int64 `json:"ttl_us"`
}

// Match selects a pending operation (or watch delivery) of an instance.
type Match struct {
	I     string `json:"i"`
	Kind  string `json:"kind"`  // create update get delete watch deliver ; "" any op
	Src   string `json:"src"`   // acq takeover hb check validate verify stop watch ; "" any
	Nth   int    `json:"nth"`   // 1-based ordinal among the operations matching (i,kind,src); 0 any
	Phase string `json:"phase"` // pre (issued, not applied) | post (applied, not answered)
}

type Step struct {
	AtUs int64  `json:"at"`
	When *Match `json:"when,omitempty"`
	Do   string `json:"do"`
	I    string `json:"i,omitempty"`
	// stopctx
	Del       bool  `json:"del,omitempty"`
	Wait      bool  `json:"wait,omitempty"`
	TimeoutUs int64 `json:"timeout_us,omitempty"`
	CtxUs     int64 `json:"ctx_us,omitempty"` // 0: background; >0 deadline; -1 already cancelled
	// validate
	Vod bool `json:"vod,omitempty"`
	// outside writes
	Key string `json:"key,omitempty"`
	Cls string `json:"cls,omitempty"`
	// sleep / partition mode / generic
	Us   int64  `json:"us,omitempty"`
	Mode string `json:"mode,omitempty"`
	// Then: steps executed after this one while the matched operation stays held.
	Then []Step `json:"then,omitempty"`
	// Release: what happens to the held operation afterwards:
	// "" normal latency, "now", "fail:<class>", "lose_ack", "hang", "timeout".
	Release string `json:"release,omitempty"`
}

// Rule injects a fault into operations FromNth..FromNth+Count-1 (ordinal among the matching ones).
type Rule struct {
	Match   Match  `json:"match"`
	Fault   string `json:"fault"` // fail:<class> | timeout | hang | lose_ack | slow:<us> | drop (deliveries)
	FromNth int    `json:"from_nth"`
	Count   int    `json:"count"`
}

// SStep is one step of a strict script (usually derived from a TLC behaviour of Election.tla).
type SStep struct {
	Do   string `json:"do"` // start stop stopctx validate disc reconn closed out_del out_put partition heal | apply respond fail lose_ack deliver drop | advance
	I    string `json:"i,omitempty"`
	Kind string `json:"kind,omitempty"`
	Src  string `json:"src,omitempty"`
	Tok  int    `json:"tok,omitempty"` // interned token of the payload (creates / updates), 0: any
	Cls  string `json:"cls,omitempty"`
	ToUs int64  `json:"to,omitempty"`
	Del  bool   `json:"del,omitempty"`
	Wait bool   `json:"wait,omitempty"`
	Vod  bool   `json:"vod,omitempty"`
	// CtxUs: context of a stopctx / validate step (0 background, -1 already cancelled)
	CtxUs int64  `json:"ctx_us,omitempty"`
	Act   string `json:"act,omitempty"` // name of the model action this step stands for
	// Exp: what the model predicts at this point (advance steps: the model is quiescent there); copied into a script_at
	// event for the orchestrator's state comparison, opaque here
	Exp json.RawMessage `json:"exp,omitempty"`
}
