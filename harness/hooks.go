//go:build verif

package harness

import (
	"runtime"
	"strconv"
	"strings"

	"github.com/ali-assar/NATS-Leader-Election/leader"
)

// goid returns the id of the calling goroutine.
func goid() int64 {
	var buf [64]byte
	n := runtime.Stack(buf[:], false) // "goroutine 123 [running]:"
	f := strings.Fields(string(buf[:n]))
	if len(f) < 2 {
		return 0
	}
	id, _ := strconv.ParseInt(f[1], 10, 64)
	return id
}

// curTracer receives the call-site notes of the library's verif hooks.
var curTracer *Tracer

func init() {
	leader.VerifNote = func(id, site string, val int64) {
		if tr := curTracer; tr != nil {
			kv := KV{"name": site, "val": val, "round": int64(0)}
			if site == "round_backoff" || site == "round_start" {
				kv["round"] = goid() // the goroutine of the acquisition round that chose this wait
			}
			tr.Emit(id, "note", kv)
		}
	}
}
