//go:build verif

package harness

import "github.com/ali-assar/NATS-Leader-Election/leader"

// curTracer receives the call-site notes of the library's verif hooks.
var curTracer *Tracer

func init() {
	leader.VerifNote = func(id, site string, val int64) {
		if tr := curTracer; tr != nil {
			tr.Emit(id, "note", KV{"name": site, "val": val})
		}
	}
}
