package harness

import (
	"bufio"
	"encoding/json"
	"os"
	"strconv"
	"sync/atomic"
	"testing"
	"testing/synctest"
	"time"
)

// TestScenarios runs the scenarios of $VERIF_SCN (one JSON object per line), starting at
// index $VERIF_FROM, appending their traces to $VERIF_OUT.
// Exit codes seen by the orchestrator: 0 all done; 3 hang (watchdog); 5 goroutine leak after
// the scenario; anything else with "panic:" on stderr: crash inside the scenario.
func TestScenarios(t *testing.T) {
	path, out := os.Getenv("VERIF_SCN"), os.Getenv("VERIF_OUT")
	if path == "" || out == "" {
		t.Skip("VERIF_SCN / VERIF_OUT not set")
	}
	from, _ := strconv.Atoi(os.Getenv("VERIF_FROM"))
	in, err := os.Open(path)
	if err != nil {
		t.Fatal(err)
	}
	defer in.Close()
	var scs []*Scenario
	rd := bufio.NewReaderSize(in, 1<<22)
	for {
		line, err := rd.ReadBytes('\n')
		if len(line) > 1 {
			sc := &Scenario{}
			if e := json.Unmarshal(line, sc); e != nil {
				t.Fatalf("scenario %d: %v", len(scs), e)
			}
			scs = append(scs, sc)
		}
		if err != nil {
			break
		}
	}
	f, err := os.OpenFile(out, os.O_CREATE|os.O_WRONLY|os.O_APPEND, 0o644)
	if err != nil {
		t.Fatal(err)
	}
	defer f.Close()
	tr := NewTracer(f)
	curTracer = tr
	var beat atomic.Int64
	var active atomic.Int64
	active.Store(-1)
	go func() { // watchdog, real time (outside any bubble)
		last, since := int64(-1), time.Now()
		for {
			time.Sleep(200 * time.Millisecond)
			if active.Load() < 0 {
				since = time.Now()
				continue
			}
			if b := beat.Load(); b != last {
				last, since = b, time.Now()
				continue
			}
			if time.Since(since) > 5*time.Second {
				tr.Raw(map[string]any{"seq": 0, "t": -1, "i": "env", "ev": "hang", "idx": active.Load(), "stacks": LibStacks()})
				os.Exit(3)
			}
		}
	}()
	for idx := from; idx < len(scs); idx++ {
		sc := scs[idx]
		tr.Raw(map[string]any{"seq": 0, "t": -1, "i": "env", "ev": "scn_begin", "idx": idx, "name": sc.Name})
		active.Store(int64(idx))
		synctest.Test(t, func(t *testing.T) {
			w := NewWorld(sc, tr, &beat)
			if leaked := w.Run(); leaked > 0 {
				tr.Raw(map[string]any{"seq": 0, "t": -1, "i": "env", "ev": "scn_end", "idx": idx, "leaked": leaked, "stacks": LibStacks()})
				os.Exit(5)
			}
		})
		active.Store(-1)
		tr.Raw(map[string]any{"seq": 0, "t": -1, "i": "env", "ev": "scn_end", "idx": idx, "leaked": 0})
	}
}
