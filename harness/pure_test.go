//go:build verif

package harness

import (
	"bufio"
	"encoding/json"
	"errors"
	"os"
	"strconv"
	"strings"
	"testing"
	"time"

	"github.com/ali-assar/NATS-Leader-Election/leader"
)

// ---- helpers: NDJSON in / out ---------------------------------------------------------------

func readRows(t *testing.T, path string, fn func(line []byte)) {
	f, err := os.Open(path)
	if err != nil {
		t.Fatal(err)
	}
	defer f.Close()
	rd := bufio.NewReaderSize(f, 1<<20)
	for {
		line, err := rd.ReadBytes('\n')
		if len(line) > 1 {
			fn(line)
		}
		if err != nil {
			return
		}
	}
}

type rowWriter struct {
	f *os.File
	w *bufio.Writer
}

func newRowWriter(t *testing.T, path string) *rowWriter {
	f, err := os.Create(path)
	if err != nil {
		t.Fatal(err)
	}
	return &rowWriter{f, bufio.NewWriterSize(f, 1<<20)}
}
func (r *rowWriter) put(v any) {
	b, _ := json.Marshal(v)
	r.w.Write(b)
	r.w.WriteByte('\n')
}
func (r *rowWriter) close() { r.w.Flush(); r.f.Close() }

// ---- C16: every configuration of the lattice enumerated by ConfigValid.tla goes through the real
// NewElection with a provider that records whether the store was contacted -------------------

type cfgRow struct {
	B    string `json:"b"`
	G    string `json:"g"`
	ID   string `json:"id"`
	Hm   int64  `json:"hm"`
	Ho   int64  `json:"ho"`
	Tm   int64  `json:"tm"`
	To   int64  `json:"to"`
	Vm   int64  `json:"vm"`
	Vo   int64  `json:"vo"`
	Gm   int64  `json:"gm"`
	Go   int64  `json:"go"`
	Mcf  int    `json:"mcf"`
	Prio int    `json:"prio"`
	Tk   bool   `json:"tk"`
}

type touchProvider struct{ touched *bool }

func (p touchProvider) JetStream() (leader.JetStreamContext, error) {
	*p.touched = true
	return touchJS{p.touched}, nil
}

type touchJS struct{ touched *bool }

func (j touchJS) KeyValue(string) (leader.KeyValue, error) {
	*j.touched = true
	return &Handle{}, nil
}

func TestConfigs(t *testing.T) {
	in, out := os.Getenv("VERIF_IN"), os.Getenv("VERIF_OUT")
	if in == "" || out == "" {
		t.Skip()
	}
	var bases []int64
	for _, s := range strings.Split(os.Getenv("VERIF_BASES"), ",") {
		if v, err := strconv.ParseInt(s, 10, 64); err == nil {
			bases = append(bases, v)
		}
	}
	every, _ := strconv.Atoi(os.Getenv("VERIF_EVERY"))
	if every <= 0 {
		every = 1
	}
	offset, _ := strconv.Atoi(os.Getenv("VERIF_OFFSET"))
	w := newRowWriter(t, out)
	defer w.close()
	n := 0
	readRows(t, in, func(line []byte) {
		n++
		var r cfgRow
		if err := json.Unmarshal(line, &r); err != nil {
			t.Fatal(err)
		}
		for bi, B := range bases {
			if (n+bi+offset)%every != 0 {
				continue
			}
			d := func(m, o int64) time.Duration { return time.Duration(m*B + o) }
			cfg := leader.ElectionConfig{Bucket: r.B, Group: r.G, InstanceID: r.ID,
				TTL: d(r.Tm, r.To), HeartbeatInterval: d(r.Hm, r.Ho), ValidationInterval: d(r.Vm, r.Vo),
				DisconnectGracePeriod: d(r.Gm, r.Go), MaxConsecutiveFailures: r.Mcf, Priority: r.Prio, AllowPriorityTakeover: r.Tk}
			touched := false
			el, err := leader.NewElection(touchProvider{&touched}, cfg)
			field := "ok"
			if err != nil {
				field = "other"
				var ve *leader.ValidationError
				if errors.As(err, &ve) {
					field = ve.Field
				}
			}
			res := map[string]any{"b": r.B, "g": r.G, "id": r.ID, "hm": r.Hm, "ho": r.Ho, "tm": r.Tm, "to": r.To, "vm": r.Vm, "vo": r.Vo,
				"gm": r.Gm, "go": r.Go, "mcf": r.Mcf, "prio": r.Prio, "tk": r.Tk,
				"base": strconv.FormatInt(B, 10), "accepted": err == nil && el != nil, "field": field, "touched": touched}
			w.put(res)
		}
	})
}
