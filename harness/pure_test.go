//go:build verif

package harness

import (
	"bufio"
	"context"
	"encoding/json"
	"errors"
	"fmt"
	"math/rand"
	"os"
	"strconv"
	"strings"
	"sync"
	"sync/atomic"
	"testing"
	"testing/synctest"
	"time"

	"github.com/ali-assar/NATS-Leader-Election/leader"
	"github.com/nats-io/nats.go"
)

// ---- helpers: NDJSON in / out ---------------------------------------------------------------

func readRows(t *testing.T, path string, fn func(line []byte)) {
	f, err := os.Open(path)
	if err != nil {
		t.Fatal(err)
	}
	defer f.Close()
	rd := bufio.NewReaderSize(f, 1<<20)
	for {
		line, err := rd.ReadBytes('\n')
		if len(line) > 1 {
			fn(line)
		}
		if err != nil {
			return
		}
	}
}

type rowWriter struct {
	f *os.File
	w *bufio.Writer
}

func newRowWriter(t *testing.T, path string) *rowWriter {
	f, err := os.Create(path)
	if err != nil {
		t.Fatal(err)
	}
	return &rowWriter{f, bufio.NewWriterSize(f, 1<<20)}
}
func (r *rowWriter) put(v any) {
	b, _ := json.Marshal(v)
	r.w.Write(b)
	r.w.WriteByte('\n')
}
func (r *rowWriter) close() { r.w.Flush(); r.f.Close() }

// ---- C16: every configuration of the lattice enumerated by ConfigValid.tla goes through the real
// NewElection with a provider that records whether the store was contacted -------------------

type cfgRow struct {
	B    string `json:"b"`
	G    string `json:"g"`
	ID   string `json:"id"`
	Hm   int64  `json:"hm"`
	Ho   int64  `json:"ho"`
	Tm   int64  `json:"tm"`
	To   int64  `json:"to"`
	Vm   int64  `json:"vm"`
	Vo   int64  `json:"vo"`
	Gm   int64  `json:"gm"`
	Go   int64  `json:"go"`
	Mcf  int    `json:"mcf"`
	Prio int    `json:"prio"`
	Tk   bool   `json:"tk"`
}

type touchProvider struct{ touched *bool }

func (p touchProvider) JetStream() (leader.JetStreamContext, error) {
	*p.touched = true
	return touchJS{p.touched}, nil
}

type touchJS struct{ touched *bool }

func (j touchJS) KeyValue(string) (leader.KeyValue, error) {
	*j.touched = true
	return &Handle{}, nil
}

func TestConfigs(t *testing.T) {
	in, out := os.Getenv("VERIF_IN"), os.Getenv("VERIF_OUT")
	if in == "" || out == "" {
		t.Skip()
	}
	var bases []int64
	for _, s := range strings.Split(os.Getenv("VERIF_BASES"), ",") {
		if v, err := strconv.ParseInt(s, 10, 64); err == nil {
			bases = append(bases, v)
		}
	}
	every, _ := strconv.Atoi(os.Getenv("VERIF_EVERY"))
	if every <= 0 {
		every = 1
	}
	offset, _ := strconv.Atoi(os.Getenv("VERIF_OFFSET"))
	w := newRowWriter(t, out)
	defer w.close()
	n := 0
	readRows(t, in, func(line []byte) {
		n++
		var r cfgRow
		if err := json.Unmarshal(line, &r); err != nil {
			t.Fatal(err)
		}
		for bi, B := range bases {
			if (n+bi+offset)%every != 0 {
				continue
			}
			d := func(m, o int64) time.Duration { return time.Duration(m*B + o) }
			cfg := leader.ElectionConfig{Bucket: r.B, Group: r.G, InstanceID: r.ID,
				TTL: d(r.Tm, r.To), HeartbeatInterval: d(r.Hm, r.Ho), ValidationInterval: d(r.Vm, r.Vo),
				DisconnectGracePeriod: d(r.Gm, r.Go), MaxConsecutiveFailures: r.Mcf, Priority: r.Prio, AllowPriorityTakeover: r.Tk}
			touched := false
			el, err := leader.NewElection(touchProvider{&touched}, cfg)
			field := "ok"
			if err != nil {
				field = "other"
				var ve *leader.ValidationError
				if errors.As(err, &ve) {
					field = ve.Field
				}
			}
			res := map[string]any{"b": r.B, "g": r.G, "id": r.ID, "hm": r.Hm, "ho": r.Ho, "tm": r.Tm, "to": r.To, "vm": r.Vm, "vo": r.Vo,
				"gm": r.Gm, "go": r.Go, "mcf": r.Mcf, "prio": r.Prio, "tk": r.Tk,
				"base": strconv.FormatInt(B, 10), "accepted": err == nil && el != nil, "field": field, "touched": touched}
			w.put(res)
		}
	})
}

// ---- C15: every error term enumerated by ErrClass.tla is built as a real Go value and classified by the
// real predicates; the NATS leaves are additionally captured from an embedded server through the adapter ----

func buildLeaf(name string, real map[string]error) error {
	if e, ok := real[name]; ok {
		return e
	}
	switch name {
	case "ErrNotLeader":
		return leader.ErrNotLeader
	case "ErrAlreadyStarted":
		return leader.ErrAlreadyStarted
	case "ErrElectionFailed":
		return leader.ErrElectionFailed
	case "ErrHeartbeatFailed":
		return leader.ErrHeartbeatFailed
	case "ErrConnectionLost":
		return leader.ErrConnectionLost
	case "ErrTokenMismatch":
		return leader.ErrTokenMismatch
	case "ErrTokenInvalid":
		return leader.ErrTokenInvalid
	case "ErrInvalidConfig":
		return leader.ErrInvalidConfig
	case "ErrBucketNotFound":
		return leader.ErrBucketNotFound
	case "ErrPermissionDenied":
		return leader.ErrPermissionDenied
	case "Canceled":
		return context.Canceled
	case "DeadlineExceeded":
		return context.DeadlineExceeded
	case "TimeoutError":
		return leader.NewTimeoutError("heartbeat update", time.Second, nil)
	case "ValidationErrorLeaf":
		return leader.NewValidationError("TTL", time.Second, "TTL must be positive")
	case "nats_conflict":
		return errWrongLastSeq(7)
	case "nats_keyexists":
		return errKeyExists(7)
	case "nats_keynotfound":
		return nats.ErrKeyNotFound
	case "nats_timeout":
		return nats.ErrTimeout
	case "nats_noresponders":
		return nats.ErrNoResponders
	case "nats_connclosed":
		return nats.ErrConnectionClosed
	case "nats_bucketnotfound":
		return nats.ErrBucketNotFound
	case "nats_permviolation":
		return errors.New("nats: permissions violation for publish to \"$KV.leaders.group\"")
	case "text_neutral":
		return errors.New("something odd happened")
	case "text_revision":
		return errors.New("store says: Revision Mismatch on key")
	case "text_access":
		return errors.New("Access Denied by policy")
	case "text_auth":
		return errors.New("nats: Authentication Timeout")
	case "text_timeoutword":
		return errors.New("i/o timeout while reading")
	}
	return nil
}

func wrapWith(w string, e error) error {
	switch w {
	case "w":
		return fmt.Errorf("while refreshing the record: %w", e)
	case "w_invalid":
		return fmt.Errorf("invalid state: %w", e)
	case "election":
		return leader.NewElectionError("E_ACQUIRE", "instance-1", "acquire failed", e)
	case "tokenval":
		return &leader.TokenValidationError{LocalToken: "a", KvToken: "b", LeaderID: "instance-1", Reason: "check failed", Err: e}
	case "timeout":
		return leader.NewTimeoutError("fetch", 2*time.Second, e)
	case "validation":
		return &leader.ValidationError{Field: "TTL", Value: 1, Reason: "bad", Err: e}
	case "join":
		return errors.Join(e, errors.New("and one more thing"))
	case "v":
		return fmt.Errorf("failed: %v", e)
	}
	return e
}

// captureRealNATS provokes the client's own error values against an embedded server through the adapter.
func captureRealNATS(t *testing.T) map[string]error {
	res := map[string]error{}
	ctx, cancel := context.WithCancel(context.Background())
	defer cancel()
	srv, err := leader.StartEmbeddedNATSServer(ctx)
	if err != nil {
		t.Logf("embedded server unavailable: %v", err)
		return res
	}
	nc, err := nats.Connect(srv.ClientURL(), nats.Timeout(2*time.Second))
	if err != nil {
		t.Logf("connect: %v", err)
		return res
	}
	js, _ := nc.JetStream(nats.MaxWait(500 * time.Millisecond))
	if _, err := js.CreateKeyValue(&nats.KeyValueConfig{Bucket: "c15", Storage: nats.MemoryStorage}); err != nil {
		t.Logf("bucket: %v", err)
		return res
	}
	kv, err := leader.VerifNewNATSKeyValue(nc, "c15")
	if err != nil {
		t.Logf("adapter: %v", err)
		return res
	}
	rev, _ := kv.Create("g", []byte("v1"))
	_, res["real_keyexists"] = kv.Create("g", []byte("v2"))
	_, res["real_conflict"] = kv.Update("g", []byte("v3"), rev+5)
	_, res["real_keynotfound"] = kv.Get("absent")
	_, res["real_bucketnotfound"] = leader.VerifNewNATSKeyValue(nc, "no-such-bucket")
	srv.Shutdown()
	time.Sleep(100 * time.Millisecond)
	_, res["real_timeout_or_noresponders"] = kv.Update("g", []byte("v4"), rev)
	nc.Close()
	_, res["real_connclosed"] = kv.Update("g", []byte("v4"), rev)
	for k, v := range res {
		if v == nil {
			delete(res, k)
		}
	}
	return res
}

func TestErrClass(t *testing.T) {
	in, out := os.Getenv("VERIF_IN"), os.Getenv("VERIF_OUT")
	if in == "" || out == "" {
		t.Skip()
	}
	seed, _ := strconv.ParseInt(os.Getenv("VERIF_SEED"), 10, 64)
	nrand, _ := strconv.Atoi(os.Getenv("VERIF_NRANDOM"))
	w := newRowWriter(t, out)
	defer w.close()
	real := captureRealNATS(t)
	// the captured values stand for the constructed NATS leaves of the same class
	alias := map[string]string{"real_keyexists": "nats_keyexists", "real_conflict": "nats_conflict", "real_keynotfound": "nats_keynotfound",
		"real_connclosed": "nats_connclosed", "real_bucketnotfound": "nats_bucketnotfound"}
	emit := func(leaf string, ws []string, e error, note string) {
		w.put(map[string]any{"leaf": leaf, "ws": ws, "isnil": e == nil, "perm": leader.IsPermanentError(e), "trans": leader.IsTransientError(e),
			"text": func() string {
				if e == nil {
					return ""
				}
				s := e.Error()
				if len(s) > 160 {
					s = s[:160]
				}
				return s
			}(), "note": note})
	}
	emit("nil", []string{}, nil, "nil")
	readRows(t, in, func(line []byte) {
		var r struct {
			Leaf string   `json:"leaf"`
			Ws   []string `json:"ws"`
		}
		if err := json.Unmarshal(line, &r); err != nil {
			t.Fatal(err)
		}
		if r.Ws == nil {
			r.Ws = []string{}
		}
		e := buildLeaf(r.Leaf, nil)
		if e == nil {
			t.Fatalf("unknown leaf %s", r.Leaf)
		}
		for _, x := range r.Ws {
			e = wrapWith(x, e)
		}
		emit(r.Leaf, r.Ws, e, "constructed")
	})
	for name, e := range real {
		leaf, ok := alias[name]
		if !ok {
			// after server shutdown the client answers with its time-out or no-responders error
			switch {
			case errors.Is(e, nats.ErrTimeout):
				leaf = "nats_timeout"
			case errors.Is(e, nats.ErrNoResponders):
				leaf = "nats_noresponders"
			default:
				leaf = "nats_connclosed"
			}
		}
		emit(leaf, []string{}, e, "captured:"+name)
		emit(leaf, []string{"w"}, wrapWith("w", e), "captured:"+name)
		emit(leaf, []string{"election"}, wrapWith("election", e), "captured:"+name)
	}
	rng := rand.New(rand.NewSource(seed))
	words := []string{"revision mismatch", "key not found", "permission denied", "bucket not found", "access denied", "invalid", "authentication",
		"timeout", "deadline exceeded", "connection lost", "connection refused", "temporary", "unavailable", "network", "i/o timeout", "connection reset",
		"wrong last sequence", "key exists", "nats:", "leader", "x", "ERROR", "Ünïcode", "\n", "%w", ""}
	for k := 0; k < nrand; k++ {
		var sb strings.Builder
		for j := rng.Intn(5); j >= 0; j-- {
			wd := words[rng.Intn(len(words))]
			if rng.Intn(3) == 0 {
				wd = strings.ToUpper(wd)
			}
			sb.WriteString(wd)
			sb.WriteString([]string{" ", ": ", "", "-"}[rng.Intn(4)])
		}
		var e error = errors.New(sb.String())
		ws := []string{}
		for j := rng.Intn(3); j > 0; j-- {
			x := []string{"w", "w_invalid", "election", "tokenval", "timeout", "validation", "join", "v"}[rng.Intn(8)]
			e = wrapWith(x, e)
			ws = append(ws, x)
		}
		emit("random", ws, e, "random")
	}
}

// ---- C17: scenarios enumerated by Retry.tla executed on the real RetryWithBackoff / CircuitBreaker /
// CalculateBackoff under virtual time ---------------------------------------------------------

func TestRetry(t *testing.T) {
	inR, inB, out := os.Getenv("VERIF_IN_RETRY"), os.Getenv("VERIF_IN_BREAKER"), os.Getenv("VERIF_OUT")
	if inR == "" || out == "" {
		t.Skip()
	}
	seed, _ := strconv.ParseInt(os.Getenv("VERIF_SEED"), 10, 64)
	reps, _ := strconv.Atoi(os.Getenv("VERIF_BACKOFF_REPS"))
	w := newRowWriter(t, out)
	defer w.close()

	type rs struct {
		Max   int      `json:"max"`
		Outs  []string `json:"outs"`
		Ckind string   `json:"ckind"`
		Cat   int      `json:"cat"`
		Thr   int      `json:"thr"`
	}
	var retries []rs
	readRows(t, inR, func(line []byte) {
		var r rs
		if err := json.Unmarshal(line, &r); err != nil {
			t.Fatal(err)
		}
		if r.Outs == nil {
			r.Outs = []string{}
		}
		retries = append(retries, r)
	})
	bo := leader.BackoffConfig{InitialBackoff: 50 * time.Millisecond, MaxBackoff: 400 * time.Millisecond, BackoffMultiplier: 2, Jitter: 0.1}
	synctest.Test(t, func(t *testing.T) {
		for _, r := range retries {
			cfg := leader.RetryConfig{MaxAttempts: r.Max, BackoffConfig: bo}
			if r.Thr > 0 {
				cfg.CircuitBreaker = leader.NewCircuitBreaker(r.Thr, 1000*time.Second)
			}
			ctx, cancel := context.WithCancel(context.Background())
			if r.Ckind == "before" {
				cancel()
			}
			calls := 0
			var times []time.Time
			fn := func() error {
				calls++
				times = append(times, time.Now())
				if calls > 40 {
					cancel() // safety net against a runaway loop; reported through the call count
				}
				if r.Ckind == "wait" && calls == r.Cat {
					base := 50 * time.Millisecond << (calls - 1)
					if base > 400*time.Millisecond {
						base = 400 * time.Millisecond
					}
					time.AfterFunc(base*4/10, cancel)
				}
				o := "ok"
				if calls <= len(r.Outs) {
					o = r.Outs[calls-1]
				}
				switch o {
				case "trans":
					return errors.New("temporary glitch")
				case "perm":
					return leader.ErrPermissionDenied
				}
				return nil
			}
			err := leader.RetryWithBackoff(ctx, cfg, fn)
			cancel()
			res := "other"
			switch {
			case err == nil:
				res = "nil"
			case errors.Is(err, context.Canceled):
				res = "ctx"
			case err.Error() == "circuit breaker is open":
				res = "open"
			case strings.HasPrefix(err.Error(), "max attempts"):
				res = "max"
			case errors.Is(err, leader.ErrPermissionDenied):
				res = "perm"
			}
			waits := []int64{}
			for k := 1; k < len(times); k++ {
				waits = append(waits, int64(times[k].Sub(times[k-1])/time.Microsecond))
			}
			w.put(map[string]any{"kind": "retry", "max": r.Max, "outs": r.Outs, "ckind": r.Ckind, "cat": r.Cat, "thr": r.Thr,
				"calls": calls, "res": res, "waits": waits})
			time.Sleep(time.Second) // let pending AfterFunc timers fire
		}
	})

	type bs struct {
		Thr  int      `json:"thr"`
		Gaps []string `json:"gaps"`
		Outs []string `json:"outs"`
	}
	var brs []bs
	if inB != "" {
		readRows(t, inB, func(line []byte) {
			var b bs
			if err := json.Unmarshal(line, &b); err != nil {
				t.Fatal(err)
			}
			if b.Gaps == nil {
				b.Gaps, b.Outs = []string{}, []string{}
			}
			brs = append(brs, b)
		})
	}
	synctest.Test(t, func(t *testing.T) {
		const C = 1000 * time.Nanosecond
		for _, b := range brs {
			cb := leader.NewCircuitBreaker(b.Thr, C)
			invoked, res := []bool{}, []string{}
			for k := range b.Gaps {
				gap := map[string]time.Duration{"0": 0, "C-1": C - 1, "C": C, "C+1": C + 1}[b.Gaps[k]]
				time.Sleep(gap)
				called := false
				err := cb.Call(func() error {
					called = true
					if b.Outs[k] == "ok" {
						return nil
					}
					return errors.New("operation failed")
				})
				invoked = append(invoked, called)
				switch {
				case err == nil:
					res = append(res, "ok")
				case !called:
					res = append(res, "open")
				default:
					res = append(res, "err")
				}
			}
			w.put(map[string]any{"kind": "breaker", "thr": b.Thr, "gaps": b.Gaps, "outs": b.Outs, "invoked": invoked, "res": res})
		}
	})

	// concurrent callers of one breaker (real goroutines, real time): n calls whose operation fails, all issued while the
	// first one is still inside the operation. Whatever the interleaving, the calls take effect in some order, and in every
	// order exactly min(n, threshold) of them reach the operation (Retry.tla: BreakerRun over n failing calls).
	for _, thr := range []int{1, 2, 3} {
		for _, n := range []int{2, 4, 6} {
			cb := leader.NewCircuitBreaker(thr, time.Hour)
			var invoked atomic.Int32
			release := make(chan struct{})
			var wg sync.WaitGroup
			for g := 0; g < n; g++ {
				wg.Add(1)
				go func() {
					defer wg.Done()
					_ = cb.Call(func() error {
						invoked.Add(1)
						<-release
						return errors.New("operation failed")
					})
				}()
			}
			time.Sleep(30 * time.Millisecond)
			close(release)
			wg.Wait()
			w.put(map[string]any{"kind": "breaker_conc", "thr": thr, "n": n, "invoked": int(invoked.Load())})
		}
	}

	// CalculateBackoff samples
	rng := rand.New(rand.NewSource(seed))
	ns := []int{0, 1, 2, 3, 5, 10, 30, 62, 63, 64, 100, 1000, 1023, 1024, 1025, 2000, 1000000, 2000000000}
	for _, init := range []int{0, 1, 50, 1000} {
		for _, max := range []int{1, 5000, 100000} {
			if max < init {
				continue
			}
			for _, m := range [][2]int{{1, 1}, {3, 2}, {2, 1}, {3, 1}, {10, 1}} {
				for _, jit := range []int{0, 10, 50, 100} {
					for _, n := range ns {
						for rep := 0; rep < reps; rep++ {
							nn := n
							if rep > 0 && rng.Intn(2) == 0 {
								nn = rng.Intn(70)
							}
							cfg := leader.BackoffConfig{InitialBackoff: time.Duration(init) * time.Millisecond, MaxBackoff: time.Duration(max) * time.Millisecond,
								BackoffMultiplier: float64(m[0]) / float64(m[1]), Jitter: float64(jit) / 100}
							d := leader.CalculateBackoff(cfg, nn)
							us := int64(d / time.Microsecond)
							if us > 2000000000 {
								us = 2000000000
							}
							if us < -2000000000 {
								us = -2000000000
							}
							w.put(map[string]any{"kind": "backoff", "init_ms": init, "max_ms": max, "num": m[0], "den": m[1], "jit_pct": jit, "n": nn,
								"result_us": us, "isneg": d < 0})
						}
					}
				}
			}
		}
	}
}
