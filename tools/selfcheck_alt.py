#!/usr/bin/env python3
"""Development tool: for every `fixed:` entry of known_findings.txt, take the fix out of a scratch worktree of /repo (reverse
patch of the fix: commit), run the quick check of the property (and of the `also` properties) against that worktree
(VERIF_REPO), and expect a VIOLATION: a repaired defect is reported again if it ever returns. /repo itself is not touched.
usage: selfcheck_alt.py [commit ...]"""
import re, subprocess, sys, os, time
from concurrent.futures import ThreadPoolExecutor
ROOT = os.path.dirname(os.path.dirname(os.path.abspath(__file__)))
entries = []
for line in open(os.path.join(ROOT, "known_findings.txt")):
    m = re.match(r"fixed:\s+property=(C\d+)\s+([0-9a-f]{7,})\s+(.*)", line.strip())
    if m:
        also = re.findall(r"also ((?:C\d+\s*)+)", m.group(3))
        entries.append((m.group(2), [m.group(1)] + (also[0].split() if also else []), m.group(3)))
want = sys.argv[1:]


def one(ent):
    commit, props, text = ent
    wt = "/tmp/selfcheck-%s" % commit
    subprocess.run(["git", "-C", "/repo", "worktree", "remove", "--force", wt], capture_output=True)
    r = subprocess.run(["git", "-C", "/repo", "worktree", "add", "-q", "--detach", wt, "HEAD"], capture_output=True, text=True)
    if r.returncode != 0:
        return "%s worktree failed" % commit
    try:
        patch = subprocess.run(["git", "-C", "/repo", "show", commit, "--", "leader"], capture_output=True, text=True).stdout
        r = subprocess.run(["git", "apply", "-R", "-"], input=patch, capture_output=True, text=True, cwd=wt)
        if r.returncode != 0:
            return "%-8s %-14s reverse patch does not apply any more (later fixes changed the same lines)   %s" % (commit, ",".join(props), text[:70])
        if subprocess.run(["go", "build", "./..."], cwd=wt, capture_output=True).returncode != 0:
            return "%-8s %-14s does not build without the fix   %s" % (commit, ",".join(props), text[:70])
        out = []
        for p in props:
            t0 = time.time()
            c = subprocess.run(["python3", os.path.join(ROOT, "tools", "verif.py"), "check", p, "--tier", "quick"], capture_output=True, text=True,
                               cwd=ROOT, env=dict(os.environ, VERIF_REPO=wt, VERIF_NO_EVIDENCE="1"))
            viol = [l for l in c.stdout.splitlines() if l.startswith("VIOLATION")]
            out.append("%s %s %.0fs" % (p, "DETECTED" if viol else "missed(rc=%d)" % c.returncode, time.time() - t0))
            if viol:
                break
        return "%-8s %-14s %s   %s" % (commit, ",".join(props), "; ".join(out), text[:70])
    finally:
        subprocess.run(["git", "-C", "/repo", "worktree", "remove", "--force", wt], capture_output=True)


with ThreadPoolExecutor(max_workers=4) as ex:
    for res in ex.map(one, [e for e in entries if not want or e[0] in want]):
        print(res, flush=True)
