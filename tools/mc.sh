#!/bin/sh
# development helper: run TLC on a configuration of the specification in a scratch copy
# usage: tools/mc.sh <cfg> [workers] [extra tlc args...]
cfg=$1; shift
w=${1:-16}; [ $# -gt 0 ] && shift
run=/verif/work/mc/$(basename $cfg .cfg)-$$
mkdir -p $run && cp /verif/spec/*.tla /verif/spec/*.cfg $run/ && cd $run
mod=$(head -1 $cfg | sed 's/^\\\* *//')
timeout ${MC_TIMEOUT:-1800} java -XX:+UseParallelGC ${MC_HEAP:--Xmx24g} -cp /opt/veriftools/tla/tla2tools.jar:/opt/veriftools/tla/CommunityModules-deps.jar tlc2.TLC -dumpTrace json /verif/work/mc/last.json -workers $w -metadir $run/meta -config $cfg "$@" $mod 2>&1 | grep -v "^Semantic\|^Linting\|^Parsing"
cd /verif && rm -r $run
