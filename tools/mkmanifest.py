#!/usr/bin/env python3
"""Writes MANIFEST.json from the tables in families.py (development tool, run after changing them)."""
import json, os, sys, subprocess
sys.path.insert(0, os.path.dirname(os.path.abspath(__file__)))
import families

ROOT = os.path.dirname(os.path.dirname(os.path.abspath(__file__)))
props = {json.loads(l)["id"]: json.loads(l) for l in open(os.path.join(ROOT, "properties.jsonl"))}
hooks = subprocess.run(["git", "-C", "/repo", "log", "--format=%h %s"], capture_output=True, text=True).stdout.splitlines()
hook_commits = [l.split()[0] for l in hooks if l.split(" ", 1)[1].startswith("verif:")]

LEVEL_TEXT = families.LEVEL_TEXT
checks = []
for pid in sorted(props):
    if pid in families.PROPS or pid in families.SPECIAL:
        info = families.PROPS.get(pid) or families.SPECIAL_INFO[pid]
        checks.append({
            "property_id": pid,
            "quick_cmd": "python3 tools/verif.py check %s --tier quick" % pid,
            "thorough_cmd": "python3 tools/verif.py check %s --tier thorough" % pid,
            "evidence_file": "evidence/%s.json" % pid,
            "replay_cmd_template": "python3 tools/verif.py replay {path}",
            "engine": info.get("engine", "tla-monitor+tlc"),
            "level_claimed": {"category": info.get("level", "model_checking"), "text": info.get("level_text", LEVEL_TEXT), "design_ref": info.get("design_ref", "DESIGN.md section 7 (%s)" % pid)},
            "level_note": info.get("level_note", families.LEVEL_NOTE),
            "technique": info.get("technique", "TLA+ trace validation of real executions (MonitorTrace.tla) + TLC model checking of Election.tla"),
        })
na = [{"property_id": pid, "reason": families.NOT_YET.get(pid, "check not yet built in this commit (work in progress)")}
      for pid in sorted(props) if pid not in families.PROPS and pid not in families.SPECIAL]
m = {
    "version": 1,
    "setup_cmd": "python3 tools/verif.py setup",
    "hooks": {"guard": "verif", "enable": "go test -tags verif from the harness module (replace => /repo)",
              "baseline_off_cmd": "cd /repo && GOPROXY=off go test -vet=off -count=1 -timeout 25m ./...",
              "source_commits": hook_commits, "add_only": True},
    "engines": [
        {"name": "tla-monitor+tlc", "path": "spec/", "serves_properties": sorted(families.PROPS),
         "kind_free_text": "explicit TLA+ specification (Election.tla, Props.tla, Obs.tla) checked by TLC; real executions of the Go code under testing/synctest are recorded as NDJSON traces and validated against the specification by TLC (MonitorTrace.tla)"},
        {"name": "harness", "path": "harness/", "serves_properties": sorted(families.PROPS),
         "kind_free_text": "Go test binary driving real kvElection objects against a gated NATS-faithful reference store inside a synctest bubble"},
    ],
    "checks": checks,
    "notes": "exit 2 of a check means inconclusive (tool failure), never a violation; known findings are listed in known_findings.txt",
    "not_applicable": na,
}
json.dump(m, open(os.path.join(ROOT, "MANIFEST.json"), "w"), indent=1)
print("checks:", [c["property_id"] for c in checks], "n/a:", [x["property_id"] for x in na])
