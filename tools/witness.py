#!/usr/bin/env python3
"""Turns TLC behaviours of Election.tla into strict harness schedules.

  witness.py gen [dev ...]      for every deviation name (default: all of MC.tla's D_* definitions) run TLC on the
                                witness configurations with Dev = {dev}; the shortest counterexample becomes
                                /verif/schedules/w-<cfg>-<dev>.json
  witness.py convert <dump.json> <cfg> <out.json>

A behaviour is projected to its environment actions (API calls, store apply / respond / fail, watch deliveries,
outside writes, time); internal actions of the library are not driven but happen by themselves in the real code.
"""
import json, os, re, subprocess, sys, shutil, glob, time

ROOT = os.path.dirname(os.path.dirname(os.path.abspath(__file__)))
SPEC = os.path.join(ROOT, "spec")
UNIT = 50000  # microseconds per model time unit (regime S: H = 4 units = 200 ms)

TABLES = {
    "AllZero": lambda i: 0, "AllFalse": lambda i: False, "AllTrue": lambda i: True,
    "Prio_AB": lambda i: {"A": 1, "B": 2}.get(i, 1), "TK_B": lambda i: i != "A", "Prio_Tie": lambda i: 1,
    "HN2": lambda i: 2 if i == "A" else 0, "HN3": lambda i: 3 if i == "A" else 0, "CONN_A": lambda i: i == "A",
}


def parse_cfg(path):
    c = {}
    for line in open(path):
        m = re.match(r"\s*(\w+)\s*(=|<-)\s*(.+?)\s*$", line)
        if m:
            c[m.group(1)] = m.group(3)
    return c


def src_of(slot, pc, kind):
    if slot in ("acq", "tko", "r1", "r2", "r3"):
        return "acq" if kind == "create" else "takeover"
    return {"hb": "hb", "val": "validate", "stp": "stop"}.get(slot, "watch" if kind == "watch" else "check")


def convert(dump, cfgpath, name, origin):
    j = json.load(open(dump))["counterexample"]
    cfg = parse_cfg(cfgpath)
    states = {n: s for n, s in j["state"]}
    acts = {a[2][0]: (a[1], a[0][0]) for a in j["action"]}  # result index -> (action, from index)
    ids = sorted(states[1]["el"].keys())
    ids_up = {i: i.upper() for i in ids}
    tab = lambda k, i: TABLES[cfg[k]](ids_up[i])
    H = int(cfg["H"])
    script, health = [], {i: "" for i in ids}
    for n in sorted(states):
        if n not in acts:
            continue
        a, frm = acts[n]
        prev, cur = states[frm], states[n]
        nm, ctx = a["name"], a.get("context", {})
        i = ids_up.get(ctx.get("i"), ctx.get("i"))
        step = None
        if nm == "Start":
            step = {"do": "start", "i": i}
        elif nm == "StopBegin":
            k = ctx["kind"]
            step = {"do": "stop", "i": i} if k == "stop" else {"do": "stopctx", "i": i, "del": k == "ctxdel"}
            if k == "ctxabort":      # a call whose context is already cancelled: returns an error while the goroutines still run
                step["ctx_us"] = -1
        elif nm in ("StoreApply", "StoreFail", "LoseAck", "PartTimeout"):
            s = ctx["s"]
            t = prev["th"][ctx["i"]][s]
            op = t["op"]
            sel = {"i": i, "kind": op["kind"], "src": src_of(s, t["pc"], op["kind"])}
            # (tokens are not used as selectors: the real code draws its jitters at random, so the order in which two
            #  instances issue their Creates - and with it the numbering of the interned tokens - may differ from the model's)
            if nm == "StoreApply":
                step = dict(sel, do="apply")
            elif nm == "LoseAck":
                step = dict(sel, do="lose_ack")
            else:
                step = dict(sel, do="fail", cls="timeout" if nm == "PartTimeout" else ctx.get("cls", "timeout"))
        elif nm == "OrphApply":
            o = ctx["o"]
            step = {"do": "apply", "i": ids_up[o["i"]], "kind": o["kind"]}
        elif nm in ("AcqCreateResp", "TkGetResp", "TkUpdateResp", "HbUpdateResp", "ValGetResp", "WatchOpenResp", "CheckResp",
                    "StopOwnsResp", "StopDeleteResp", "ApiGetResp", "VerifyGetResp"):
            s = ctx.get("s") or {"HbUpdateResp": "hb", "ValGetResp": "val", "WatchOpenResp": "w", "CheckResp": "w",
                                 "StopOwnsResp": "stp", "StopDeleteResp": "stp", "ApiGetResp": "api", "VerifyGetResp": "vfy"}[nm]
            t = prev["th"][ctx["i"]][s]
            op = t["op"]
            step = {"do": "respond", "i": i, "kind": op["kind"], "src": src_of(s, t["pc"], op["kind"])}
            if s in ("api", "vfy"):
                step["src"] = "validate" if s == "api" else ""
        elif nm == "WatchEvent":
            step = {"do": "deliver", "i": i}
        elif nm == "DropEvent":
            step = {"do": "drop", "i": i}
        elif nm == "OutsideDelete":
            step = {"do": "out_del"}
        elif nm == "OutsidePut":
            k = ctx["kind"]
            step = {"do": "out_put", "cls": {"other": "other", "as": "as:" + ids_up.get(ctx["id"], str(ctx["id"])),
                                             "malformed": "notjson", "empty": "empty"}[k]}
        elif nm == "Partition":
            step = {"do": "partition", "i": i}
        elif nm == "Heal":
            step = {"do": "heal", "i": i}
        elif nm == "Advance":
            # the model is quiescent when time advances: its claims and states are compared with the real ones at this point
            step = {"do": "advance", "to": cur["now"] * UNIT,
                    "exp": {ids_up[x]: {"leader": e["leader"], "state": e["state"], "life": e["life"]} for x, e in prev["el"].items()}}
        elif nm == "HbHealth":
            health[ctx["i"]] += "h" if ctx["healthy"] else "u"
        elif nm in ("Disconnect", "Reconnect", "Closed"):
            step = {"do": {"Disconnect": "disc", "Reconnect": "reconn", "Closed": "closed"}[nm], "i": i}
        elif nm == "ApiValidate":
            step = {"do": "validate", "i": i, "vod": bool(ctx.get("vod"))}
        if step:
            step["act"] = nm
            # merge consecutive advances
            if step["do"] == "advance" and script and script[-1]["do"] == "advance":
                script[-1]["to"] = step["to"]
            else:
                script.append(step)
    last = max(s["now"] for s in states.values())
    insts = []
    for i in ids:
        hn = tab("HN", i)
        insts.append({"id": ids_up[i], "prio": tab("Prio", i), "takeover": bool(tab("TK", i)), "health_n": hn if hn > 0 else -1,
                      "health": health[i], "health_rest": "h", "conn": bool(tab("CONN", i)),
                      "vi_us": int(cfg.get("VI", "0")) * UNIT, "grace_us": 0})
    return {"name": name, "seed": 1, "h_us": H * UNIT, "ttl_us": int(cfg["TTL"]) * UNIT, "insts": insts,
            "lat_min_us": 1000, "lat_max_us": 8000, "watch_min_us": 1000, "watch_max_us": 8000,
            "steps": [], "rules": [], "script": script, "end_us": (last + 4 * int(cfg["TTL"])) * UNIT,
            "family": "witness", "origin": origin}


def tlc_dump(cfg_text, cfgname, timeout=420):
    run = os.path.join(ROOT, "work", "witness", "%s-%d" % (cfgname, os.getpid()))
    os.makedirs(run, exist_ok=True)
    for f in glob.glob(os.path.join(SPEC, "*.tla")):
        shutil.copy(f, run)
    open(os.path.join(run, cfgname + ".cfg"), "w").write(cfg_text)
    dump = os.path.join(run, "dump.json")
    jar = "/opt/veriftools/tla/tla2tools.jar:/opt/veriftools/tla/CommunityModules-deps.jar"
    try:
        r = subprocess.run(["java", "-XX:+UseParallelGC", "-Xmx24g", "-cp", jar, "tlc2.TLC", "-dumpTrace", "json", dump, "-workers", "auto",
                            "-metadir", os.path.join(run, "meta"), "-config", cfgname + ".cfg", "MC.tla"], cwd=run, capture_output=True, text=True, timeout=timeout)
    except subprocess.TimeoutExpired:
        shutil.rmtree(run, ignore_errors=True)
        raise
    out = r.stdout
    m = re.search(r"Invariant (\w+) is violated", out)
    ok = "No error has been found" in out
    return run, (dump if os.path.exists(dump) and m else None), (m.group(1) if m else None), ok, out


# witness configurations: small models in which each deviation shows up quickly; PREFER lists the ones to try first
WITNESS_CFGS = ["MC_ValCancel_quick.cfg", "MC_Health_quick.cfg", "MC_Abort_quick.cfg", "MC_Core2_quick.cfg", "MC_Outside_quick.cfg", "MC_Validate_quick.cfg",
                "MC_Conn_quick.cfg", "MC_Faults_quick.cfg", "MC_Prio_quick.cfg", "MC_Vacancy_quick.cfg", "MC_Wit_Restart.cfg", "MC_Wit_NR2.cfg",
                "MC_Wit_Out.cfg", "MC_Wit_OutNR2.cfg", "MC_OutsideVal_quick.cfg"]
PREFER = {
    "hb_no_recheck_after_health": ["MC_Health_quick.cfg"], "health_gt": ["MC_Health_quick.cfg"], "health_not_reset": ["MC_Health_quick.cfg"],
    "validate_without_leader_gate": ["MC_Validate_quick.cfg", "MC_OutsideVal_quick.cfg"], "validate_fast_path": ["MC_Validate_quick.cfg", "MC_OutsideVal_quick.cfg"],
    "closed_suppresses_grace": ["MC_Conn_quick.cfg"], "verify_sets_connected_after_newer_disconnect": ["MC_Conn_quick.cfg"],
    "verification_failure_without_demotion": ["MC_Conn_quick.cfg"],
    "takeover_continues_after_stop": ["MC_Prio_quick.cfg"], "takeover_ge": ["MC_Prio_quick.cfg"], "watcher_demotion_without_callback": ["MC_Prio_quick.cfg"],
    "conflict_transient": ["MC_Outside_quick.cfg", "MC_Prio_quick.cfg"], "delete_without_owner_check": ["MC_Prio_quick.cfg", "MC_Wit_Out.cfg"],
    "four_failures": ["MC_Faults_quick.cfg"], "validation_first_error_demotes": ["MC_ValCancel_quick.cfg"],
    "validation_failure_notifies_unconditionally": ["MC_ValCancel_quick.cfg"], "aborted_stop_skips_ondemote": ["MC_Abort_quick.cfg"],
    "exhaustion_demotes_leader": ["MC_Wit_NR2.cfg", "MC_Wit_OutNR2.cfg"], "double_promotion": ["MC_Wit_OutNR2.cfg", "MC_Wit_Out.cfg"],
    "stale_event_demotes": ["MC_Wit_Restart.cfg", "MC_Core2_quick.cfg"], "promote_ctx_is_election_ctx": ["MC_Core2_quick.cfg"],
    "stop_keeps_claim": ["MC_Core2_quick.cfg"], "claim_after_stop": ["MC_Core2_quick.cfg"],
    "verification_failure_without_demotion": ["MC_Wit_ConnOut.cfg"], "four_failures": ["MC_Wit_Fail4.cfg"],
    "takeover_continues_after_stop": ["MC_Wit_PrioStop.cfg"], "hb_no_recheck_after_health": ["MC_Wit_HealthPrio.cfg"],
    "watcher_demotion_without_callback": ["MC_Wit_PrioStop.cfg", "MC_Core3_thorough.cfg"],
    "stale_observation_regresses": ["MC_Prio_quick.cfg"], "follower_bookkeeping_overwrites_leader": ["MC_Wit_PrioStop.cfg", "MC_Prio_quick.cfg"],
    "start_failure_demotes_leader": ["MC_Wit_Restart.cfg", "MC_Wit_NR2.cfg"], "attempt_while_leading": ["MC_Wit_NR2.cfg"],
    "watch_acts_after_cancel": ["MC_Core2_quick.cfg", "MC_Wit_Restart.cfg"],
    "watch_failure_gives_up": ["MC_VacancyFault_thorough.cfg"], "disconnect_ignored_while_follower": ["MC_Wit_ConnTerms.cfg"],
}


def gen(devs):
    mc = open(os.path.join(SPEC, "MC.tla")).read()
    all_devs = re.findall(r"^D_(\w+) ==", mc, re.M)
    devs = devs or all_devs
    os.makedirs(os.path.join(ROOT, "schedules"), exist_ok=True)
    for d in devs:
        found = False
        name0 = [os.path.basename(p) for p in glob.glob(os.path.join(ROOT, "schedules", "w-*-%s.json" % d))]
        if name0 and not os.environ.get("WITNESS_REDO"):
            print("%-45s exists: %s" % (d, name0[0]))
            continue
        order = PREFER.get(d, []) + [c for c in WITNESS_CFGS if c not in PREFER.get(d, [])]
        if os.environ.get("WITNESS_PREFER_ONLY") and d in PREFER:
            order = PREFER[d]
        for cfgname in order:
            p = os.path.join(SPEC, cfgname)
            if not os.path.exists(p):
                continue
            text = open(p).read()
            text = re.sub(r"Dev <- \w+", "Dev <- D_" + d, text)
            text = text.replace("Inst = {a, b}", 'Inst = {"A", "B"}').replace("Inst = {a, b, c}", 'Inst = {"A", "B", "C"}').replace("SYMMETRY Sym\n", "")
            t0 = time.time()
            try:
                run, dump, inv, ok, out = tlc_dump(text, cfgname[:-4] + "_" + d, timeout=int(os.environ.get("WITNESS_TIMEOUT", "240")))
            except subprocess.TimeoutExpired:
                print("%-45s %-22s timeout" % (d, cfgname))
                continue
            if dump:
                name = "w-%s-%s" % (cfgname[:-4].replace("MC_", "").replace("_quick", ""), d)
                sc = convert(dump, os.path.join(run, cfgname[:-4] + "_" + d + ".cfg"), name, "TLC counterexample of %s with Dev={%s}: %s" % (cfgname, d, inv))
                json.dump(sc, open(os.path.join(ROOT, "schedules", name + ".json"), "w"), indent=0)
                print("%-45s %-22s %s violated, %d script steps, %.0fs" % (d, cfgname, inv, len(sc["script"]), time.time() - t0))
                found = True
            else:
                print("%-45s %-22s %s %.0fs" % (d, cfgname, "no violation" if ok else "TLC error: " + out[-300:], time.time() - t0))
            shutil.rmtree(run, ignore_errors=True)
            if found:
                break


if __name__ == "__main__":
    if sys.argv[1] == "gen":
        gen(sys.argv[2:])
    elif sys.argv[1] == "convert":
        sc = convert(sys.argv[2], sys.argv[3], os.path.basename(sys.argv[4])[:-5], "manual")
        json.dump(sc, open(sys.argv[4], "w"), indent=0)
