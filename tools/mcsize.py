#!/usr/bin/env python3
"""Development tool: run the model configurations of a tier once, print their sizes and fill the model-check cache.

  mcsize.py [quick|thorough] [cfg-substring ...]      (time budget per configuration: VERIF_MC_BUDGET seconds, default 600)
"""
import sys, os, glob, json, time, hashlib
sys.path.insert(0, os.path.dirname(os.path.abspath(__file__)))
import verif

tier = sys.argv[1] if len(sys.argv) > 1 else "thorough"
subs = sys.argv[2:]
spec = verif.SPEC
limit = int(os.environ.get("VERIF_MC_BUDGET", "600"))
for p in sorted(glob.glob(os.path.join(spec, "MC_*_%s*.cfg" % tier))):
    cfg = os.path.basename(p)
    if subs and not any(s in cfg for s in subs):
        continue
    h = hashlib.sha256()
    for f in ("MC.tla", "Election.tla", "Props.tla", cfg):
        h.update(open(os.path.join(spec, f), "rb").read())
    cache = os.path.join(verif.WORK, "mc", "%s-%s.json" % (h.hexdigest()[:16], cfg))
    if os.path.exists(cache):
        st = json.load(open(cache))
        print("%-36s cached   distinct=%s generated=%s wall=%ss ok=%s" % (cfg, st.get("distinct"), st.get("generated"), st.get("wall_s"), st.get("ok")), flush=True)
        continue
    t0 = time.time()
    try:
        out, st = verif.tlc("MC.tla", cfg, workers="auto", timeout=limit + 900, heap="-Xmx12g", stop_after=limit)
        st["complete"] = st.get("left_on_queue") == 0
    except verif.Inconclusive as ex:
        print("%-36s TIMEOUT after %ds" % (cfg, limit), flush=True)
        continue
    st["wall_s"] = round(time.time() - t0, 1)
    st["cfg"] = cfg
    if st.get("ok"):
        os.makedirs(os.path.dirname(cache), exist_ok=True)
        json.dump(st, open(cache, "w"))
    print("%-36s %s distinct=%s generated=%s depth=%s left=%s wall=%ss" % (cfg, "ok" if st.get("ok") else "NOT OK: " + out[-1500:], st.get("distinct"), st.get("generated"),
                                                                  st.get("depth"), st.get("left_on_queue"), st["wall_s"]), flush=True)
