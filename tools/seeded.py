#!/usr/bin/env python3
"""Seeded property-breaking changes (produced independently by sub-agents; kept under /verif/seeded/<id>/).

  seeded.py import <src_dir> <property> <id> "<what it needs to manifest>"
        confirm in a scratch worktree of /repo's HEAD (outside /repo and /verif) that the patch applies and builds, the
        existing suite passes with it, the demonstration fails with it and passes without it; then copy patch.diff, the
        demonstration and meta.json to /verif/seeded/<id>/
  seeded.py run [id ...] [--tier quick]
        apply each kept change to /repo, run the check of its property (and of the properties listed in meta "also"),
        record the outcome in seeded/<id>/result.json, undo the change
"""
import json, os, subprocess, sys, shutil, glob, time, re

ROOT = os.path.dirname(os.path.dirname(os.path.abspath(__file__)))
SEED = os.path.join(ROOT, "seeded")
ENV = dict(os.environ, GOFLAGS="-mod=mod", GOPROXY="off")
ENV.pop("GOSUMDB", None)


def sh(cmd, cwd=None, env=None, timeout=3600):
    return subprocess.run(cmd, cwd=cwd, env=env or ENV, capture_output=True, text=True, timeout=timeout)


def confirm(src, prop, sid, needs):
    patch = os.path.join(src, "patch.diff")
    demos = [f for f in glob.glob(os.path.join(src, "*_test.go"))]
    assert os.path.exists(patch) and demos, "patch.diff and a *_test.go demonstration are required"
    wt = "/tmp/seedconf-%s" % sid
    sh(["git", "-C", "/repo", "worktree", "remove", "--force", wt])
    r = sh(["git", "-C", "/repo", "worktree", "add", "-q", "--detach", wt, "HEAD"])
    assert r.returncode == 0, r.stderr
    log = {}
    try:
        demo_name = os.path.basename(demos[0])
        shutil.copy(demos[0], os.path.join(wt, "leader", demo_name))
        tests = re.findall(r"func (Test\w+)\(", open(demos[0]).read())
        run = "^(%s)$" % "|".join(tests)
        # without the change: demonstration passes
        r = sh(["go", "test", "-vet=off", "-count=1", "-run", run, "./leader"], cwd=wt)
        log["demo_without_change"] = "pass" if r.returncode == 0 else "FAIL:\n" + (r.stdout + r.stderr)[-1500:]
        r = sh(["git", "apply", patch], cwd=wt)
        assert r.returncode == 0, "patch does not apply to HEAD: " + r.stderr
        r = sh(["go", "build", "./..."], cwd=wt)
        log["builds_with_change"] = r.returncode == 0
        r = sh(["go", "test", "-vet=off", "-count=1", "-run", run, "./leader"], cwd=wt)
        log["demo_with_change"] = "fail (as required)" if r.returncode != 0 else "PASSES (change not demonstrated)"
        fails = re.findall(r"--- FAIL: (\w+)", r.stdout)
        log["demo_failing_tests"] = fails
        os.remove(os.path.join(wt, "leader", demo_name))
        r = sh(["go", "test", "-vet=off", "-count=1", "-timeout", "25m", "./..."], cwd=wt)
        log["existing_suite_with_change"] = "pass" if r.returncode == 0 else "FAIL:\n" + (r.stdout + r.stderr)[-1500:]
    finally:
        sh(["git", "-C", "/repo", "worktree", "remove", "--force", wt])
    ok = log.get("demo_without_change") == "pass" and log.get("builds_with_change") and log.get("demo_with_change", "").startswith("fail") \
        and log.get("existing_suite_with_change") == "pass"
    print(json.dumps(log, indent=1))
    if not ok:
        print("NOT KEPT")
        return 1
    d = os.path.join(SEED, sid)
    os.makedirs(d, exist_ok=True)
    shutil.copy(patch, os.path.join(d, "patch.diff"))
    shutil.copy(demos[0], os.path.join(d, os.path.basename(demos[0]) + ".txt"))   # .txt: not compiled by anything
    readme = os.path.join(src, "README.md")
    if os.path.exists(readme):
        shutil.copy(readme, os.path.join(d, "AGENT_README.md"))
    head = sh(["git", "-C", "/repo", "rev-parse", "--short", "HEAD"]).stdout.strip()
    json.dump({"id": sid, "property": prop, "needs_to_manifest": needs, "confirmed_against_repo_commit": head,
               "confirmation": log, "commands": ["git worktree add <scratch> HEAD", "go test -run <demo> ./leader   (without change: pass)",
                                                 "git apply patch.diff; go build ./...", "go test -run <demo> ./leader   (with change: fail)",
                                                 "go test -vet=off -count=1 ./...   (existing suite with change: pass)"]},
              open(os.path.join(d, "meta.json"), "w"), indent=1)
    print("KEPT", d)
    return 0


def run_alt_one(sid, tier):
    """development aid: the same as run() for one change, but against a scratch worktree (VERIF_REPO), so that /repo is left alone
    and several changes can be examined at once; the recorded results come from run() on /repo itself"""
    d = os.path.join(SEED, sid)
    meta = json.load(open(os.path.join(d, "meta.json")))
    wt = "/tmp/seedalt-%s" % sid
    sh(["git", "-C", "/repo", "worktree", "remove", "--force", wt])
    r = sh(["git", "-C", "/repo", "worktree", "add", "-q", "--detach", wt, "HEAD"])
    if r.returncode != 0:
        return "%s worktree: %s" % (sid, r.stderr[:200])
    out = []
    try:
        r = sh(["git", "apply", os.path.join(d, "patch.diff")], cwd=wt)
        if r.returncode != 0:
            return "%s patch does not apply: %s" % (sid, r.stderr[:200])
        for p in [meta["property"]] + meta.get("also", []):
            t0 = time.time()
            c = sh(["python3", os.path.join(ROOT, "tools", "verif.py"), "check", p, "--tier", tier], cwd=ROOT, env=dict(os.environ, VERIF_REPO=wt, VERIF_NO_EVIDENCE="1"))
            viol = [l for l in c.stdout.splitlines() if l.startswith("VIOLATION")]
            clauses = [l for l in c.stdout.splitlines() if l.startswith("violated clause")][:2]
            out.append("%-28s %s %s %.0fs %s" % (sid, p, "DETECTED" if viol else "missed (exit %d)" % c.returncode, time.time() - t0,
                                                  " | ".join(x[16:120] for x in clauses)))
            if not viol and c.returncode != 0:
                out.append("    " + (c.stdout + c.stderr)[-600:].replace("\n", "\n    "))
    finally:
        sh(["git", "-C", "/repo", "worktree", "remove", "--force", wt])
    return "\n".join(out)


def run_alt(ids, tier, par=4):
    from concurrent.futures import ThreadPoolExecutor
    ids = ids or sorted(os.path.basename(p) for p in glob.glob(os.path.join(SEED, "C*")) if os.path.isdir(p))
    with ThreadPoolExecutor(max_workers=par) as ex:
        for res in ex.map(lambda s: run_alt_one(s, tier), ids):
            print(res, flush=True)


def run(ids, tier):
    ids = ids or sorted(os.path.basename(p) for p in glob.glob(os.path.join(SEED, "C*")) if os.path.isdir(p))
    for sid in ids:
        d = os.path.join(SEED, sid)
        meta = json.load(open(os.path.join(d, "meta.json")))
        st = sh(["git", "-C", "/repo", "status", "--short"]).stdout
        assert st.strip() == "", "/repo not clean: " + st
        r = sh(["git", "-C", "/repo", "apply", os.path.join(d, "patch.diff")])
        if r.returncode != 0:
            print(sid, "patch does not apply:", r.stderr[:300])
            continue
        res = {"tier": tier, "checks": {}}
        try:
            for p in [meta["property"]] + meta.get("also", []):
                t0 = time.time()
                c = sh(["python3", os.path.join(ROOT, "tools", "verif.py"), "check", p, "--tier", tier], cwd=ROOT, env=dict(os.environ))
                viol = [l for l in c.stdout.splitlines() if l.startswith("VIOLATION")]
                clauses = [l for l in c.stdout.splitlines() if l.startswith("violated clause")][:3]
                res["checks"][p] = {"exit": c.returncode, "detected": bool(viol), "clauses": clauses, "wall_s": round(time.time() - t0, 1),
                                    "tail": "" if viol else c.stdout[-600:]}
                print("%-28s %s %s %.0fs %s" % (sid, p, "DETECTED" if viol else "missed (exit %d)" % c.returncode, time.time() - t0,
                                                " | ".join(x[16:120] for x in clauses[:2])), flush=True)
        finally:
            sh(["git", "-C", "/repo", "checkout", "--", "."])
        json.dump(res, open(os.path.join(d, "result-%s.json" % tier), "w"), indent=1)
    sh(["git", "-C", ROOT, "checkout", "--", "evidence"])
    print("repo status:", repr(sh(["git", "-C", "/repo", "status", "--short"]).stdout))


if __name__ == "__main__":
    if sys.argv[1] == "import":
        sys.exit(confirm(sys.argv[2], sys.argv[3], sys.argv[4], sys.argv[5] if len(sys.argv) > 5 else ""))
    tier = "quick"
    args = sys.argv[2:]
    if "--tier" in args:
        k = args.index("--tier")
        tier = args[k + 1]
        del args[k:k + 2]
    if sys.argv[1] == "alt":
        run_alt(args, tier)
    else:
        run(args, tier)
