#!/usr/bin/env python3
"""Development tool: for every `fixed:` entry of known_findings.txt, take the fix out of /repo's working tree
(reverse patch), run the quick check of the property, expect a VIOLATION, and restore the tree.
usage: selfcheck.py [commit ...]"""
import re, subprocess, sys, os, json, time
ROOT = os.path.dirname(os.path.dirname(os.path.abspath(__file__)))
entries = []
for line in open(os.path.join(ROOT, "known_findings.txt")):
    m = re.match(r"fixed:\s+property=(C\d+)\s+([0-9a-f]{7,})\s+(.*)", line.strip())
    if m:
        also = re.findall(r"also ((?:C\d+\s*)+)", m.group(3))
        props = [m.group(1)] + (also[0].split() if also else [])
        entries.append((m.group(2), props, m.group(3)))
want = sys.argv[1:]
res = []
for commit, props, text in entries:
    if want and commit not in want:
        continue
    patch = subprocess.run(["git", "-C", "/repo", "show", commit, "--", "leader"], capture_output=True, text=True).stdout
    r = subprocess.run(["git", "-C", "/repo", "apply", "-R", "-"], input=patch, capture_output=True, text=True)
    if r.returncode != 0:
        r = subprocess.run(["git", "-C", "/repo", "apply", "-R", "--3way", "-"], input=patch, capture_output=True, text=True)
    if r.returncode != 0:
        res.append((commit, props, "reverse patch does not apply", text))
        subprocess.run(["git", "-C", "/repo", "checkout", "--", "."])
        continue
    b = subprocess.run(["go", "build", "./..."], cwd="/repo", capture_output=True, text=True)
    out = []
    if b.returncode != 0:
        out.append("does not build")
    else:
        for p in props:
            t0 = time.time()
            c = subprocess.run(["python3", os.path.join(ROOT, "tools", "verif.py"), "check", p, "--tier", "quick"], capture_output=True, text=True, cwd=ROOT)
            viol = [l for l in c.stdout.splitlines() if l.startswith("VIOLATION")]
            cl = [l for l in c.stdout.splitlines() if l.startswith("violated clause")][:2]
            out.append("%s rc=%d %s %.0fs %s" % (p, c.returncode, "DETECTED" if viol else "MISSED", time.time() - t0, " | ".join(x[:110] for x in cl)))
    subprocess.run(["git", "-C", "/repo", "checkout", "--", "."])
    subprocess.run(["git", "-C", "/repo", "reset", "-q"])
    res.append((commit, props, "; ".join(out), text))
    print(commit, "; ".join(out), "::", text[:90], flush=True)
st = subprocess.run(["git", "-C", "/repo", "status", "--short"], capture_output=True, text=True).stdout
print("repo status after selfcheck:", repr(st))
# restore evidence files written against the mutated trees
subprocess.run(["git", "-C", ROOT, "checkout", "--", "evidence"])
