#!/usr/bin/env python3
"""Writes seeded/MATRIX.md from the result-quick.json files left by `tools/seeded.py run` (reads only; touches neither /repo nor the checks)."""
import os, json, glob, re
ROOT = os.path.dirname(os.path.dirname(os.path.abspath(__file__)))
rows, det, n = [], 0, 0
for d in sorted(glob.glob(os.path.join(ROOT, "seeded", "C*"))):
    sid = os.path.basename(d)
    meta = json.load(open(os.path.join(d, "meta.json")))
    rp = os.path.join(d, "result-quick.json")
    if not os.path.exists(rp):
        rows.append("| %s | %s | (no run recorded) | | |" % (sid, meta["property"])); n += 1; continue
    res = json.load(open(rp))
    n += 1
    by = [p for p, c in res["checks"].items() if c["detected"]]
    if by:
        det += 1
    cl = []
    for p in by:
        for c in res["checks"][p]["clauses"][:1]:
            m = re.match(r"violated clause (C\d+): (\S+)", c)
            s = re.search(r"scenario=(\S+)", c)
            cl.append("%s `%s`%s" % (m.group(1), m.group(2), (" in `%s`" % s.group(1)) if s else "") if m else c[:80])
    rows.append("| %s | %s | %s | %s | %s |" % (sid, meta["property"], ", ".join(by) if by else "**not detected**", "; ".join(cl),
                                              meta.get("needs_to_manifest", "").replace("|", "/")))
head = open(os.path.join(ROOT, "seeded", "MATRIX.md")).read().split("\n| ")[0].rstrip("\n")
head = re.sub(r"\n\d+ changes, \d+ detected.*", "", head)
out = head + "\n\n%d changes, %d detected by the check of their own property or of a property listed in `also`.\n\n" % (n, det)
out += "| change | property | detected by | first clause | needs |\n|---|---|---|---|---|\n" + "\n".join(rows) + "\n"
open(os.path.join(ROOT, "seeded", "MATRIX.md"), "w").write(out)
print(n, "changes,", det, "detected")
