#!/usr/bin/env python3
"""Development tool: print a TLC -dumpTrace json counterexample compactly (actions + violated clauses)."""
import json, sys
j = json.load(open(sys.argv[1]))["counterexample"]
def show(st):
    out = []
    for i, e in st["el"].items():
        out.append("%s:%s/%s%s t%s cb%s%s" % (i, e["life"][:4], e["state"][:4], "*" if e["leader"] else "", e["term"], e["cb"], "P" if e.get("part") else ""))
    r = st["rec"]
    return "now=%s rec=%s/%s/tok%s/rev%s %s viol=%s" % (st["now"], r["kind"], r["id"], r["tok"], r["rev"], " ".join(out), st["g"]["viol"])
acts = {a[2][0]: a[1] for a in j["action"]}   # keyed by the index of the resulting state
for n, st in j["state"]:
    a = acts.get(n)
    an = (a["name"] + " " + json.dumps(a.get("context", {}))) if a else ""
    print("%3d %-44s %s" % (n, an[:44], show(st)))
