"""Scenario generators: one function per family, deterministic in (tier, seed).

A scenario is the JSON schedule interpreted by the Go harness (harness/scenario.go).
Systematic enumerators list a product space and sample it in the quick tier; random
generators draw timing configurations, start/stop times and faults from the seed.
"""
import random

MS = 1000
S = 1000000

HS = [200 * MS, 500 * MS, 1 * S, 2 * S, 4 * S]
RATIOS = [3.0, 3.5, 5.0, 10.0]

PAYLOAD_CLASSES = ["empty", "notjson", "null", "array", "number", "string", "wrongtypes", "idnum", "toknum",
                   "missingid", "missingtoken", "emptyobj", "huge", "prionegative", "priohuge", "truncated", "other",
                   "shorttok", "tok1", "tok7", "emptytok", "emptyid", "longtok", "unicode", "nested", "dupkeys", "priofloat",
                   "asshort:A", "asshort:B", "owntrail_obj", "owntrail_text", "owntrail_comma"]
STOP_VARIANTS = [
    {"do": "stop"},
    {"do": "stopctx"},
    {"do": "stopctx", "del": True},
    {"do": "stopctx", "del": True, "wait": True},
    {"do": "stopctx", "del": True, "timeout_us": 300 * MS},
    {"do": "stopctx", "wait": True, "ctx_us": 2 * S},
]


def inst(i, **kw):
    d = {"id": i, "health_n": -1}
    d.update(kw)
    return d


def scn(name, seed, H, ratio, insts, steps, family, end, calm=True, rules=None, lat=None, watch=None, **kw):
    ttl = int(H * ratio)
    latmax = lat if lat is not None else int(H * 0.24) - 1      # per phase: an operation takes at most 0.48 H < H/2
    s = {"name": name, "seed": seed, "h_us": H, "ttl_us": ttl, "insts": insts,
         "lat_min_us": min(500, latmax), "lat_max_us": latmax,
         "watch_min_us": 500, "watch_max_us": watch if watch is not None else int(H * 0.3),
         "steps": steps, "rules": rules or [], "end_us": end, "family": family}
    s.update(kw)
    return s


def sample(rng, items, n):
    items = list(items)
    if len(items) <= n:
        return items
    return rng.sample(items, n)


# ------------------------------------------------------------------------------------------
def fam_core(tier, seed):
    """fault-free operation: random start/stop/restart timings, late watch deliveries."""
    rng = random.Random(seed * 7919 + 1)
    n = 40 if tier == "quick" else 400
    out = []
    for k in range(n):
        H = rng.choice(HS)
        ratio = rng.choice(RATIOS)
        ni = rng.choice([1, 2, 2, 3, 3, 4])
        ids = "ABCDE"[:ni]
        insts = [inst(i, promote_return=rng.random() < 0.2) for i in ids]
        steps = []
        end = 14 * H + rng.randrange(0, 4 * H)
        for i in ids:
            t = rng.randrange(0, 2 * H)
            steps.append({"at": t, "do": "start", "i": i})
            # a few stop / restart cycles
            while rng.random() < 0.6:
                t += rng.randrange(H // 10, 7 * H)
                if t >= end - H:
                    break
                st = dict(rng.choice(STOP_VARIANTS))
                st.update({"at": t, "i": i})
                steps.append(st)
                if rng.random() < 0.3:  # repeated stop
                    st2 = dict(rng.choice(STOP_VARIANTS))
                    st2.update({"at": t + rng.randrange(0, H), "i": i})
                    steps.append(st2)
                if rng.random() < 0.6:
                    t += rng.randrange(H // 10, 6 * H) + 6 * S
                    if t >= end - H:
                        break
                    steps.append({"at": t, "do": "start", "i": i})
                    end = max(end, t + 6 * H)
                else:
                    break
        watch = rng.choice([int(H * 0.05), int(H * 0.3), H, 3 * H])
        out.append(scn("core-%d-%d" % (seed, k), seed * 1000 + k, H, ratio, insts, steps, "core", end, watch=watch))
    return out


def stop_points():
    pts = []
    # (target role, match)
    for ph in ("pre", "post"):
        pts.append(("A", {"i": "A", "kind": "create", "src": "acq", "nth": 1, "phase": ph}))
        for nth in (1, 2, 3):
            pts.append(("A", {"i": "A", "kind": "update", "src": "hb", "nth": nth, "phase": ph}))
        pts.append(("A", {"i": "A", "kind": "get", "src": "validate", "nth": 1, "phase": ph}))
        pts.append(("B", {"i": "B", "kind": "create", "src": "acq", "nth": 1, "phase": ph}))
        pts.append(("B", {"i": "B", "kind": "watch", "nth": 1, "phase": ph}))
        for nth in (1, 2):
            pts.append(("B", {"i": "B", "kind": "get", "src": "check", "nth": nth, "phase": ph}))
        for nth in (2, 3, 5):
            pts.append(("B", {"i": "B", "kind": "create", "src": "acq", "nth": nth, "phase": ph}))
        # a takeover-enabled candidate in the middle of its Create / Get / Update sequence
        # (its first takeover Update loses against a heartbeat, so that the later attempts come from untracked rounds)
        pts.append(("Bp", {"i": "B", "kind": "create", "src": "acq", "nth": 2, "phase": ph}))
        for nth in (1, 2, 3):
            pts.append(("Bp", {"i": "B", "kind": "get", "src": "takeover", "nth": nth, "phase": ph}))
        pts.append(("Bp", {"i": "B", "kind": "update", "src": "takeover", "nth": 2, "phase": ph}))
    return pts


def fam_stop(tier, seed):
    """stop-point enumeration: Stop/StopWithContext placed before the application, between
    application and answer of each store operation of the stopping instance."""
    rng = random.Random(seed * 7919 + 2)
    H = 1 * S
    combos = []
    for role, m in stop_points():
        for v in range(len(STOP_VARIANTS)):
            for after in ("none", "restart", "stop2", "late_release", "restart_held"):
                combos.append((role, m, v, after))
    chosen = sample(rng, combos, 110 if tier == "quick" else len(combos))
    out = []
    for k, (role, m, v, after) in enumerate(chosen):
        H = rng.choice([500 * MS, 1 * S])
        insts = [inst("A", vi_us=H), inst("B", vi_us=H)]
        takeover_rule = []
        if role == "Bp":
            role = "B"
            insts = [inst("A", vi_us=H, prio=1), inst("B", vi_us=H, prio=2, takeover=True)]
            takeover_rule = [{"match": {"i": "B", "kind": "update", "src": "takeover"}, "fault": "fail:conflict", "from_nth": 1, "count": 1}]
        st = dict(STOP_VARIANTS[v])
        st.update({"when": m, "i": role})
        then = []
        if after == "late_release":
            then.append({"do": "sleep", "us": 6 * S + 500 * MS})
        elif after == "restart_held":   # the stop gives up waiting, the same object is started again, only then the operation returns
            then += [{"do": "sleep", "us": 6 * S + 500 * MS}, {"do": "start", "i": role.rstrip("p")}, {"do": "sleep", "us": 1 * S}]
        elif after == "restart":
            then.append({"do": "sleep", "us": 10 * MS})
        st["then"] = then
        steps = [{"at": 0, "do": "start", "i": "A"}, {"at": H // 4, "do": "start", "i": "B"}, st]
        # B's later acquisition attempts only exist if A goes away: stop A gracefully at 2.2 H
        if role == "B" and m["kind"] == "create" and m["nth"] >= 5:
            steps.append({"at": int(2.2 * H), "do": "stopctx", "i": "A", "del": True})
        end = 9 * S + 8 * H
        if after == "restart_held" and role == "B":
            steps.append({"at": 8 * S + 6 * H, "do": "stopctx", "i": "A", "del": True})
            end += 6 * H
        if after == "restart":
            steps.append({"at": 7 * S + 3 * H, "do": "start", "i": role})
            if role == "B":   # later the leader leaves: the restarted follower must take over
                steps.append({"at": 7 * S + 6 * H, "do": "stopctx", "i": "A", "del": True})
                end += 6 * H
        if after == "stop2":
            st2 = dict(STOP_VARIANTS[(v + 1 + k) % len(STOP_VARIANTS)])
            st2.update({"at": 7 * S + 3 * H, "i": role})
            steps.append(st2)
        name = "stop-%s%s-%s%s%d%s-v%d-%s" % (role, "p" if insts[1].get("takeover") else "", m["kind"], m.get("src", ""), m["nth"], m["phase"], v, after)
        out.append(scn(name, seed * 1000 + k, H, rng.choice([3.0, 5.0]), insts, steps, "stop", end, rules=takeover_rule))
    return out


FAULTS = ["fail:timeout", "fail:noresponders", "fail:connclosed", "fail:conflict", "fail:other", "fail:permission",
          "timeout", "hang", "lose_ack"]


def fam_faults(tier, seed):
    """heartbeat faults at every attempt index, partitions, expiry, record replaced/deleted underneath."""
    rng = random.Random(seed * 7919 + 3)
    combos = []
    for fault in FAULTS:
        for k in (1, 2, 3, 4):
            for cnt in (1, 2, 3, 0):
                combos.append(("rule", fault, k, cnt))
    for mode in ("timeout", "hang", "closed"):
        for heal in (0, 1, 2, 4, 8):
            combos.append(("partition", mode, heal, 0))
    for what in ("out_del", "out_put:other", "out_put:as:B", "out_put:as:A", "out_put:notjson", "out_put:empty"):
        for frac in (0.1, 0.5, 0.9):
            combos.append(("outside", what, frac, 0))
    chosen = sample(rng, combos, 60 if tier == "quick" else len(combos))
    if tier != "quick":
        chosen = chosen + sample(rng, combos, len(combos))  # second pass with other timing configurations
    out = []
    for k, c in enumerate(chosen):
        H = rng.choice(HS)
        ratio = rng.choice(RATIOS)
        ni = rng.choice([1, 2, 3])
        ids = "ABC"[:ni]
        insts = [inst(i) for i in ids]
        steps = [{"at": 0, "do": "start", "i": "A"}]
        for j, i in enumerate(ids[1:]):
            steps.append({"at": H // 3 + j * (H // 7), "do": "start", "i": i})
        rules = []
        end = 5 * S + 20 * H
        if c[0] == "rule":
            _, fault, nth, cnt = c
            rules.append({"match": {"i": "A", "kind": "update", "src": "hb"}, "fault": fault, "from_nth": nth, "count": cnt})
            name = "faults-hb-%s-n%d-c%d" % (fault.replace(":", "_"), nth, cnt)
        elif c[0] == "partition":
            _, mode, heal, _ = c
            t = int((1.5 + rng.random() * 2) * H)
            steps.append({"at": t, "do": "partition", "i": "A", "mode": mode})
            if heal:
                steps.append({"at": t + int(heal * H * (0.5 + rng.random())), "do": "heal", "i": "A"})
            name = "faults-part-%s-heal%d" % (mode, heal)
            end += 10 * S
        else:
            _, what, frac, _ = c
            t = int((2 + frac) * H)
            if what == "out_del":
                steps.append({"at": t, "do": "out_del"})
            else:
                steps.append({"at": t, "do": "out_put", "cls": what.split(":", 1)[1]})
            name = "faults-%s-%d" % (what.replace(":", "_"), int(frac * 10))
        out.append(scn("%s-%d" % (name, k), seed * 1000 + k, H, ratio, insts, steps, "faults", end, rules=rules,
                       part_timeout_us=rng.choice([5 * S, 2 * S])))
    return out


def fam_vacancy(tier, seed):
    """the record becomes vacant (graceful stop with delete, crash + expiry, outside delete) while followers
    run; watch events lost or late; transient Watch/Get/Create failures on the followers."""
    rng = random.Random(seed * 7919 + 4)
    combos = []
    for cause in ("stopdel", "crash", "out_del", "stop_nodel"):
        for drop in ("none", "all", "some", "late"):
            for trans in ("none", "get", "create", "watch", "part"):
                combos.append((cause, drop, trans))
    chosen = sample(rng, combos, 50 if tier == "quick" else len(combos))
    if tier != "quick":
        chosen = chosen * 3
    out = []
    for k, (cause, drop, trans) in enumerate(chosen):
        H = rng.choice(HS)
        ratio = rng.choice(RATIOS)
        ni = rng.choice([2, 3, 4])
        ids = "ABCD"[:ni]
        insts = [inst(i) for i in ids]
        steps = [{"at": 0, "do": "start", "i": "A"}]
        for j, i in enumerate(ids[1:]):
            steps.append({"at": H // 3 + j * (H // 7), "do": "start", "i": i})
        t = int((2 + 3 * rng.random()) * H)
        rules = []
        if cause == "stopdel":
            steps.append({"at": t, "do": "stopctx", "i": "A", "del": True, "wait": rng.random() < 0.5})
        elif cause == "stop_nodel":
            steps.append({"at": t, "do": "stop", "i": "A"})
        elif cause == "crash":
            steps.append({"at": t, "do": "partition", "i": "A", "mode": "hang"})
        else:
            steps.append({"at": t, "do": "out_del"})
            steps.append({"at": t, "do": "partition", "i": "A", "mode": "hang"})
        for i in ids[1:]:
            if drop == "all":
                rules.append({"match": {"i": i, "kind": "deliver"}, "fault": "drop", "from_nth": 3, "count": 0})
            elif drop == "some" and rng.random() < 0.6:
                rules.append({"match": {"i": i, "kind": "deliver"}, "fault": "drop", "from_nth": rng.randrange(3, 9), "count": rng.randrange(1, 6)})
            elif drop == "late":
                rules.append({"match": {"i": i, "kind": "deliver"}, "fault": "slow:%d" % (rng.randrange(1, 6) * H), "from_nth": 3, "count": 0})
            if trans in ("get", "create", "watch"):
                kind = trans
                src = {"get": "check", "create": "acq", "watch": "watch"}[trans]
                nth = 1 if trans == "watch" else rng.randrange(2, 8)
                rules.append({"match": {"i": i, "kind": kind, "src": src}, "fault": rng.choice(["fail:timeout", "fail:noresponders", "fail:other"]),
                              "from_nth": nth, "count": rng.randrange(1, 4)})
            elif trans == "part" and rng.random() < 0.7:
                t0 = t + rng.randrange(-H, H)
                steps.append({"at": max(0, t0), "do": "partition", "i": i, "mode": rng.choice(["timeout", "closed"])})
                steps.append({"at": max(0, t0) + rng.randrange(H // 2, 3 * H), "do": "heal", "i": i})
        end = t + int(ratio * H) + 12 * S + 6 * H
        out.append(scn("vac-%s-%s-%s-%d" % (cause, drop, trans, k), seed * 1000 + k, H, ratio, insts, steps, "vacancy", end,
                       rules=rules, part_timeout_us=2 * S))
    return out


def fam_prio(tier, seed):
    """priority takeover: all assignments of priorities {1,2,3} and takeover flags to 2-4 instances,
    start orders, takeover interleaved with the incumbent's heartbeat."""
    rng = random.Random(seed * 7919 + 5)
    out = []
    n = 50 if tier == "quick" else 500
    for k in range(n):
        H = rng.choice(HS)
        ratio = rng.choice(RATIOS)
        ni = rng.choice([2, 2, 3, 3, 4, 5])
        ids = "ABCDE"[:ni]
        fast = rng.random() < 0.5
        insts = [inst(i, prio=rng.choice([1, 1, 2, 2, 3, 0]), takeover=rng.random() < 0.65) for i in ids]
        for x in insts:
            if x["prio"] == 0:
                x["takeover"] = False
        steps = []
        order = list(ids)
        rng.shuffle(order)
        t = 0
        for i in order:
            steps.append({"at": t, "do": "start", "i": i})
            t += rng.choice([0, H // 10, H // 2, int(1.5 * H), 3 * H])
        # hold-based interleavings of the takeover Get/Update with the incumbent's refresh
        if rng.random() < 0.5:
            cand = rng.choice(ids)
            steps.append({"when": {"i": cand, "kind": "update", "src": "takeover", "nth": 1, "phase": "pre"},
                          "do": "noop", "then": [{"do": "sleep", "us": rng.choice([H // 4, H, 2 * H])}]})
        if rng.random() < 0.3:
            cand = rng.choice(ids)
            steps.append({"when": {"i": cand, "kind": "get", "src": "takeover", "nth": 1, "phase": "post"},
                          "do": "noop", "then": [{"do": "sleep", "us": rng.choice([H // 4, H, 2 * H])}]})
        end = t + 12 * H + 4 * S
        if rng.random() < 0.3:
            victim = rng.choice(ids)
            steps.append({"at": t + 4 * H, "do": rng.choice(["stop", "stopctx"]), "i": victim, "del": True})
        lat = int(H * 0.05) - 1 if fast else int(H * 0.2) - 1
        rules = []
        if rng.random() < 0.3:   # one instance receives no watch notifications at all (only its periodic check informs it)
            rules.append({"match": {"i": rng.choice(ids), "kind": "deliver"}, "fault": "drop", "from_nth": 1, "count": 0})
        out.append(scn("prio-%d-%d" % (seed, k), seed * 1000 + k, H, ratio, insts, steps, "prio", end, lat=lat,
                       watch=int(H * (0.05 if fast else 0.3)), rules=rules))
    return out


def fam_health(tier, seed):
    """health checker: all result sequences up to length 7 (thorough) / sampled (quick), thresholds
    default,1..4, several terms per instance."""
    rng = random.Random(seed * 7919 + 6)
    out = []
    seqs = []
    if tier == "quick":
        for _ in range(36):
            L = rng.randrange(3, 14)
            seqs.append("".join(rng.choice("hhuuus") for _ in range(L)))
        seqs += ["uuu", "uuhuuu", "huuhuuuh", "uuhuuhuuu", "u", "uuuuuuuuuuuu"]
    else:
        import itertools
        for L in range(1, 7):
            for t in itertools.product("hu", repeat=L):
                seqs.append("".join(t))
        for _ in range(200):
            L = rng.randrange(3, 20)
            seqs.append("".join(rng.choice("hhuuusS") for _ in range(L)))
    hang = []
    for k in range(8 if tier == "quick" else 60):
        H = rng.choice([200 * MS, 500 * MS, 1 * S])
        ratio = rng.choice([3.0, 3.5, 5.0])
        pre = "h" * rng.randrange(0, 3)
        insts = [inst("A", health_n=rng.choice([0, 2, 3]), health=pre + "x", health_rest="h", vi_us=rng.choice([H, 2 * H]),
                      health_hang_us=int(ratio * H) + rng.choice([2 * H, 4 * H, 8 * H]))]
        steps = [{"at": 0, "do": "start", "i": "A"}]
        if rng.random() < 0.4:
            insts.append(inst("B"))
            steps.append({"at": H // 2, "do": "start", "i": "B"})
        hang.append(scn("health-hang-%d" % k, seed * 1000 + 800 + k, H, ratio, insts, steps, "health", int((len(pre) + 14) * H + 3 * ratio * H) + 3 * S))
    out += hang
    # a streak of unhealthy results interrupted by a stop and restart of the same object (the count belongs to one term) ...
    for k in range(6 if tier == "quick" else 40):
        H = rng.choice([200 * MS, 500 * MS, 1 * S])
        N = rng.choice([0, 2, 3, 4])
        n_eff = 3 if N == 0 else N
        first = rng.randrange(1, n_eff)                       # unhealthy ticks before the stop: below the threshold
        sq = "h" + "u" * first + "h" * 3 + "u" * (n_eff + 1)  # (results are consumed per call, across terms)
        t_stop = int((1 + first + 0.5) * H)
        insts = [inst("A", health_n=N, health="h" + "u" * first + "u" * (n_eff + 2), health_rest="h")]
        steps = [{"at": 0, "do": "start", "i": "A"}, dict(rng.choice(STOP_VARIANTS), at=t_stop, i="A"),
                 {"at": t_stop + 6 * S + 500 * MS, "do": "start", "i": "A"}]
        out.append(scn("health-restart-in-streak-N%d-%d-%d" % (N, first, k), seed * 1000 + 700 + k, H, 5.0, insts, steps, "health",
                       t_stop + 7 * S + (n_eff + 6) * H + 15 * H))
    # ... or by a reconnect whose verification succeeds (neither a healthy result nor a new term)
    for k in range(6 if tier == "quick" else 40):
        H = rng.choice([500 * MS, 1 * S])
        N = rng.choice([0, 3, 4])
        n_eff = 3 if N == 0 else N
        after = rng.randrange(1, n_eff)                       # the reconnect arrives after that many unhealthy ticks
        insts = [inst("A", health_n=N, health="h" + "u" * (n_eff + 3), health_rest="h", conn=True)]
        t_d = int((1 + after + 0.2) * H)
        steps = [{"at": 0, "do": "start", "i": "A"}, {"at": t_d, "do": "disc", "i": "A"}, {"at": t_d + H // 10, "do": "reconn", "i": "A"}]
        out.append(scn("health-reconnect-in-streak-N%d-%d-%d" % (N, after, k), seed * 1000 + 750 + k, H, 5.0, insts, steps, "health",
                       (n_eff + 12) * H + 3 * S, lat=int(H * 0.05)))
    for k, sq in enumerate(seqs):
        H = rng.choice([200 * MS, 500 * MS, 1 * S])
        ratio = rng.choice([3.0, 3.5, 5.0])
        N = rng.choice([0, 1, 2, 3, 4])
        rest = rng.choice(["h", "h", "uh", "u", "hhu"])
        insts = [inst("A", health_n=N, health=sq, health_rest=rest)]
        steps = [{"at": 0, "do": "start", "i": "A"}]
        if rng.random() < 0.4:
            insts.append(inst("B", health_n=rng.choice([-1, 0, 2]), health="", health_rest=rng.choice(["h", "hu", "u"])))
            steps.append({"at": H // 2, "do": "start", "i": "B"})
        end = (len(sq) + 10) * H + int(3 * ratio * H) + 4 * S
        rules = []
        if rng.random() < 0.4:   # a refresh failing transiently on a healthy tick, in between unhealthy ones
            rules.append({"match": {"i": "A", "kind": "update", "src": "hb"}, "fault": rng.choice(["fail:timeout", "fail:noresponders", "fail:other"]),
                          "from_nth": rng.randrange(1, 4), "count": rng.choice([1, 1, 2])})
        out.append(scn("health-%s-N%d-%s-%d" % (sq[:20], N, rest, k), seed * 1000 + k, H, ratio, insts, steps, "health", end, rules=rules))
    return out


def fam_conn(tier, seed):
    """connection monitoring: sequences of disconnect/reconnect/closed notifications (including flapping)
    combined with partitions, ownership changes during the outage and stops; several grace periods."""
    rng = random.Random(seed * 7919 + 7)
    out = []
    n = 60 if tier == "quick" else 600
    for k in range(n):
        H = rng.choice([200 * MS, 500 * MS, 1 * S, 2 * S])
        ratio = rng.choice([3.0, 5.0, 10.0])
        gmode = rng.choice(["default", "2H", "big"])
        grace = {"default": 0, "2H": 2 * H, "big": 4 * H + rng.randrange(0, 3 * S)}[gmode]
        G = grace if grace else max(3 * H, 5 * S)
        insts = [inst("A", conn=True, grace_us=grace)]
        steps = [{"at": 0, "do": "start", "i": "A"}]
        if rng.random() < 0.5:
            insts.append(inst("B", conn=rng.random() < 0.5, grace_us=grace))
            steps.append({"at": H // 2, "do": "start", "i": "B"})
        t = int((1.2 + rng.random() * 2) * H)
        nev = rng.randrange(1, 6)
        part = rng.random() < 0.5
        for j in range(nev):
            ev = rng.choice(["disc", "disc", "reconn", "reconn", "closed"]) if j else "disc"
            steps.append({"at": t, "do": ev, "i": "A"})
            if ev == "disc" and part and rng.random() < 0.7:
                steps.append({"at": t, "do": "partition", "i": "A", "mode": rng.choice(["timeout", "closed", "hang"])})
            if ev == "reconn" and rng.random() < 0.8:
                steps.append({"at": max(0, t - rng.choice([0, 1, 50 * MS])), "do": "heal", "i": "A"})
            t += rng.choice([rng.randrange(1, 200 * MS), rng.randrange(1, G), G, G + 1, G - 1, G + rng.randrange(1, 2 * H)])
        r = rng.random()
        if r < 0.25:
            steps.append({"at": t + rng.randrange(0, G), "do": rng.choice(["stop", "stopctx"]), "i": "A", "del": True})
        elif r < 0.45:
            steps.append({"at": int(1.5 * H) + rng.randrange(0, max(1, t)), "do": "out_put", "cls": rng.choice(["as:B", "other", "as:A"])})
        elif r < 0.55:
            steps.append({"at": int(1.5 * H) + rng.randrange(0, max(1, t)), "do": "out_del"})
        end = t + 2 * G + 6 * H + 6 * S
        rules = []
        if rng.random() < 0.25:
            rules.append({"match": {"i": "A", "kind": "get", "src": rng.choice(["verify", "validate"])},
                          "fault": rng.choice(["fail:timeout", "fail:notfound", "hang", "timeout"]), "from_nth": 1, "count": rng.randrange(1, 3)})
        out.append(scn("conn-%s-%d" % (gmode, k), seed * 1000 + k, H, ratio, insts, steps, "conn", end, rules=rules,
                       part_timeout_us=2 * S))
    # a reconnect verification whose read is in flight while the connection flaps again and the record changes owner
    for k in range(10 if tier == "quick" else 80):
        H = rng.choice([500 * MS, 1 * S])
        t0 = int((1.3 + rng.random()) * H)
        src = rng.choice(["verify", "validate"])
        then = []
        for ev in rng.sample([{"do": "disc", "i": "A"}, {"do": "out_put", "cls": rng.choice(["as:B", "other", "asshort:A"])}, {"do": "reconn", "i": "A"}],
                             rng.choice([2, 3, 3])):
            then += [{"do": "sleep", "us": rng.choice([1 * MS, 20 * MS, 150 * MS])}, ev]
        then.append({"do": "sleep", "us": rng.choice([50 * MS, 400 * MS, 1500 * MS])})
        insts = [inst("A", conn=True, grace_us=rng.choice([0, 2 * H]), vi_us=rng.choice([0, H]))]
        steps = [{"at": 0, "do": "start", "i": "A"}, {"at": t0, "do": "disc", "i": "A"}, {"at": t0 + rng.choice([10 * MS, 300 * MS]), "do": "reconn", "i": "A"},
                 {"when": {"i": "A", "kind": "get", "src": src, "nth": 1 if src == "verify" else 0, "phase": rng.choice(["pre", "post"])}, "do": "noop", "then": then}]
        out.append(scn("conn-verify-held-%d" % k, seed * 1000 + 800 + k, H, rng.choice([3.0, 5.0]), insts, steps, "conn", t0 + 10 * H + 8 * S, lat=int(H * 0.05)))
    # a stop call overlapping the expiry of the grace timer: Stop's critical section is held open by a gated metrics
    # callback and released at the very instant the timer fires (lock order e.mu/d.mu)
    for k in range(6 if tier == "quick" else 40):
        H = rng.choice([200 * MS, 500 * MS, 1 * S])
        grace = 2 * H
        tdisc = int((1.3 + rng.random()) * H)
        tstop = tdisc + grace - rng.choice([1, 1000, 50 * MS])
        insts = [inst("A", conn=True, grace_us=grace, gate_stop_metric=True)]
        steps = [{"at": 0, "do": "start", "i": "A"}, {"at": tdisc, "do": "disc", "i": "A"},
                 dict(rng.choice(STOP_VARIANTS), at=tstop, i="A"),
                 {"at": tdisc + grace, "do": "release_gate", "i": "A"}]
        out.append(scn("conn-stop-at-grace-%d" % k, seed * 1000 + 900 + k, H, 3.0, insts, steps, "conn", tstop + 8 * S))
    # a reconnect notification just before the grace period ends, its handler held inside its critical section before it stops
    # the timer (scheduler gate at its log line, released at the very instant the timer fires): no grace demotion
    for k in range(4 if tier == "quick" else 30):
        H = rng.choice([200 * MS, 500 * MS, 1 * S])
        grace = 2 * H
        tdisc = int((1.3 + rng.random()) * H)
        insts = [inst("A", conn=True, grace_us=grace, gate_log="connection_reconnected")]
        steps = [{"at": 0, "do": "start", "i": "A"}, {"at": tdisc, "do": "disc", "i": "A"},
                 {"at": tdisc + grace - rng.choice([1000, 5 * MS, 20 * MS]), "do": "reconn", "i": "A"},   # (the held handler delays the verification read by as much)
                 {"at": tdisc + grace, "do": "release_gate", "i": "A"}]
        out.append(scn("conn-reconnect-handler-held-at-grace-end-%d" % k, seed * 1000 + 950 + k, H, 3.0, insts, steps, "conn", tdisc + grace + 8 * H + 2 * S))
    # a grace timer armed in one term, a later disconnect notification while follower, and a new term before the old timer fires
    for k in range(4 if tier == "quick" else 30):
        H = 500 * MS
        grace = rng.choice([4200, 4400, 4600]) * MS
        t1 = int((2.2 + rng.random()) * H)
        insts = [inst("A", conn=True, grace_us=grace)]
        steps = [{"at": 0, "do": "start", "i": "A"}, {"at": t1, "do": "disc", "i": "A"},
                 {"at": t1 + 200 * MS, "do": "out_put", "cls": "as:B"},
                 {"at": t1 + 200 * MS + 2300 * MS, "do": "disc", "i": "A"}]
        out.append(scn("conn-stale-grace-timer-%d" % k, seed * 1000 + 970 + k, H, 5.0, insts, steps, "conn", t1 + 3 * grace + 2 * S, lat=20 * MS, watch=30 * MS))
    # ... and the same without the second notification: the grace period of the first one still covers the later term
    for k in range(3 if tier == "quick" else 20):
        H = 500 * MS
        grace = rng.choice([4200, 4400, 4600]) * MS
        t1 = int((2.2 + rng.random()) * H)
        insts = [inst("A", conn=True, grace_us=grace)]
        steps = [{"at": 0, "do": "start", "i": "A"}, {"at": t1, "do": "disc", "i": "A"}, {"at": t1 + 200 * MS, "do": "out_put", "cls": "as:B"}]
        out.append(scn("conn-grace-covers-later-term-%d" % k, seed * 1000 + 980 + k, H, 5.0, insts, steps, "conn", t1 + 3 * grace + 2 * S, lat=20 * MS, watch=30 * MS))
    # ... and with a reconnect notification received as a follower in between: no grace demotion of the later term
    for k in range(3 if tier == "quick" else 20):
        H = 500 * MS
        grace = rng.choice([4200, 4400, 4600]) * MS
        t1 = int((2.2 + rng.random()) * H)
        insts = [inst("A", conn=True, grace_us=grace)]
        steps = [{"at": 0, "do": "start", "i": "A"}, {"at": t1, "do": "disc", "i": "A"}, {"at": t1 + 200 * MS, "do": "out_put", "cls": "as:B"},
                 {"at": t1 + rng.choice([1000, 1500, 2000]) * MS, "do": "reconn", "i": "A"}]
        out.append(scn("conn-reconnect-as-follower-%d" % k, seed * 1000 + 985 + k, H, 5.0, insts, steps, "conn", t1 + 3 * grace + 2 * S, lat=20 * MS, watch=30 * MS))
    # a reconnect verification that succeeds after a newer disconnect notification: the grace period of that disconnect still counts
    for k in range(3 if tier == "quick" else 18):
        H = rng.choice([500 * MS, 1 * S])
        t0 = int((1.3 + rng.random()) * H)
        insts = [inst("A", conn=True, grace_us=2 * H)]
        steps = [{"at": 0, "do": "start", "i": "A"}, {"at": t0, "do": "disc", "i": "A"}, {"at": t0 + 50 * MS, "do": "reconn", "i": "A"},
                 {"when": {"i": "A", "kind": "get", "src": ["verify", "validate"][k % 2], "nth": 1 if k % 2 == 0 else 0, "phase": rng.choice(["pre", "post"])},
                  "do": "disc", "i": "A", "then": [{"do": "sleep", "us": rng.choice([50, 200]) * MS}]}]
        out.append(scn("conn-verification-succeeds-after-newer-disconnect-%d" % k, seed * 1000 + 960 + k, H, 5.0, insts, steps, "conn",
                       t0 + 6 * H + 3 * S, lat=int(H * 0.04)))
    # a failed reconnect verification standing right before its demotion while the term is ended by another path (stop call or
    # the heartbeat): one demotion callback (scheduler gate at the handler's log line)
    for k in range(4 if tier == "quick" else 24):
        H = 1 * S
        n = rng.choice([1, 2, 3])
        t = n * H + 160 * MS      # right after a refresh of the leader (it leads from about 20 ms on): the next one is almost H away
        insts = [inst("A", conn=True, grace_us=8 * H, gate_log="demoting_due_to_reconnect_verification_failure")]
        steps = [{"at": 0, "do": "start", "i": "A"}, {"at": t - 60 * MS, "do": "disc", "i": "A"},
                 {"at": t - 10 * MS, "do": "out_put", "cls": rng.choice(["as:B", "other"])}, {"at": t, "do": "reconn", "i": "A"}]
        if k % 2 == 0:      # the term is ended by a stop call while the handler stands before its demotion ...
            steps.append(dict(STOP_VARIANTS[(k // 2) % len(STOP_VARIANTS)], at=t + 400 * MS, i="A"))
            steps.append({"at": t + 400 * MS, "do": "release_gate", "i": "A"})
        else:               # ... or by the next heartbeat, which fails on the replaced record
            steps.append({"at": t + H + 100 * MS, "do": "release_gate", "i": "A"})
        out.append(scn("conn-verification-failure-races-term-end-%d" % k, seed * 1000 + 995 + k, H, 3.0, insts, steps, "conn", t + 8 * S, lat=20 * MS))
    # a stop call issued while the reconnect handler stands between its leader check and the start of the verification
    # (scheduler gate at the handler's log line)
    for k in range(4 if tier == "quick" else 24):
        H = rng.choice([500 * MS, 1 * S])
        t = int((1.4 + rng.random()) * H)
        insts = [inst("A", conn=True, grace_us=4 * H, gate_log="verifying_leadership_after_reconnect"), inst("B")]
        steps = [{"at": 0, "do": "start", "i": "A"}, {"at": H // 3, "do": "start", "i": "B"},
                 {"at": t - H // 4, "do": "disc", "i": "A"}, {"at": t, "do": "reconn", "i": "A"},
                 dict(STOP_VARIANTS[k % len(STOP_VARIANTS)], at=t + 1, i="A"), {"at": t + 1, "do": "release_gate", "i": "A"}]
        out.append(scn("conn-stop-inside-reconnect-handler-%d" % k, seed * 1000 + 990 + k, H, 3.0, insts, steps, "conn", t + 8 * S, lat=int(H * 0.04)))
    # a connection notification delivered while a stop call is inside its critical section (same scheduler gate)
    for k in range(6 if tier == "quick" else 36):
        H = rng.choice([200 * MS, 500 * MS, 1 * S])
        tstop = int((1.3 + rng.random()) * H)
        ev = ["disc", "reconn", "closed"][k % 3]
        insts = [inst("A", conn=True, grace_us=2 * H, gate_stop_metric=True)]
        steps = [{"at": 0, "do": "start", "i": "A"}] + ([{"at": tstop - H // 2, "do": "disc", "i": "A"}] if ev == "reconn" else []) + [
                 dict(STOP_VARIANTS[(k // 3) % len(STOP_VARIANTS)], at=tstop, i="A"),
                 {"at": tstop + 10 * MS, "do": ev, "i": "A"},
                 {"at": tstop + 10 * MS, "do": "release_gate", "i": "A"}]
        out.append(scn("conn-notification-during-stop-%s-%d" % (ev, k), seed * 1000 + 950 + k, H, 3.0, insts, steps, "conn", tstop + 8 * S))
    return out


def fam_validate(tier, seed):
    """ValidateToken / ValidateTokenOrDemote racing with takeover, expiry, outside writes of every payload
    class, read faults and context deadlines; outside interference on followers and takeover candidates."""
    rng = random.Random(seed * 7919 + 8)
    out = []
    combos = []
    for cls in PAYLOAD_CLASSES + ["as:A", "as:B", "del", "none"]:
        for vod in (False, True):
            for ctx in (0, -1, 300 * MS):
                combos.append((cls, vod, ctx))
    chosen = sample(rng, combos, 110 if tier == "quick" else len(combos))
    if tier != "quick":
        chosen = chosen * 2
    for k, (cls, vod, ctx) in enumerate(chosen):
        H = rng.choice([500 * MS, 1 * S])
        ratio = rng.choice([3.0, 5.0])
        tk = rng.random() < 0.4
        insts = [inst("A", prio=1 if tk else 0, takeover=False, vi_us=rng.choice([0, H, 2 * H]))]
        steps = [{"at": 0, "do": "start", "i": "A"}]
        if rng.random() < 0.7:
            insts.append(inst("B", prio=2 if tk else 0, takeover=tk))
            steps.append({"at": rng.choice([H // 3, 2 * H + H // 2]), "do": "start", "i": "B"})
        t = int((2 + rng.random()) * H)
        if cls == "del":
            steps.append({"at": t, "do": "out_del"})
        elif cls != "none":
            steps.append({"at": t, "do": "out_put", "cls": cls})
        # the call: before, at, or after the interference; sometimes with the read held while it happens
        mode = rng.choice(["after", "before", "race", "race", "after_hold", "after_hold"])
        call = {"do": "validate", "i": rng.choice(["A", "A", "A", "B"]) if len(insts) > 1 else "A", "vod": vod, "ctx_us": ctx}
        rules = []
        if mode == "after":
            call["at"] = t + rng.randrange(1, H)
            steps.append(call)
        elif mode == "before":
            call["at"] = max(1, t - rng.randrange(1, H))
            steps.append(call)
        elif mode == "after_hold":
            # the call starts after the record was lost but before the instance noticed; its read stays in flight
            # across the demotion (and the follower's bookkeeping)
            call["at"] = t + rng.choice([1, 5 * MS, 50 * MS])
            call["ctx_us"] = 0
            steps.append(call)
            steps.append({"when": {"i": call["i"], "kind": "get", "src": "validate", "nth": 0, "phase": rng.choice(["pre", "pre", "post"])},
                          "do": "noop", "then": [{"do": "sleep", "us": rng.choice([H + H // 2, 2 * H + H // 2, 3 * S])}]})
        else:
            call["at"] = max(1, t - 10 * MS)
            steps.append(call)
            steps.append({"when": {"i": call["i"], "kind": "get", "src": "validate", "nth": 0, "phase": rng.choice(["pre", "post"])},
                          "do": "noop", "then": [{"do": "sleep", "us": rng.choice([20 * MS, 400 * MS, 3 * S])}]})
        if rng.random() < 0.25:
            rules.append({"match": {"i": call["i"], "kind": "get", "src": "validate"},
                          "fault": rng.choice(["fail:timeout", "fail:notfound", "fail:other", "hang", "timeout", "lose_ack"]),
                          "from_nth": 1, "count": rng.randrange(1, 4)})
        for _ in range(rng.randrange(0, 3)):
            steps.append({"at": rng.randrange(H, 6 * H), "do": "validate", "i": rng.choice([x["id"] for x in insts]),
                          "vod": rng.random() < 0.5, "ctx_us": rng.choice([0, 0, -1, 100 * MS])})
        end = 10 * H + 5 * S
        if rng.random() < 0.25:     # the caller's connection is reported lost (and perhaps back) around the call
            insts[0]["conn"] = True
            insts[0]["grace_us"] = 20 * S
            steps.append({"at": max(1, t - rng.randrange(1, H)), "do": "disc", "i": "A"})
            if rng.random() < 0.3:
                steps.append({"at": t + rng.randrange(1, 2 * H), "do": "reconn", "i": "A"})
        out.append(scn("val-%s-%s-%s-%d" % (cls.replace(":", "_"), "vod" if vod else "v", mode, k), seed * 1000 + k, H, ratio,
                       insts, steps, "validate", end, rules=rules, part_timeout_us=2 * S))
    # the owner's own bytes followed by more bytes (not a JSON document), validated before the next heartbeat notices
    for k, cls in enumerate(["owntrail_obj", "owntrail_text", "owntrail_comma"] * (1 if tier == "quick" else 6)):
        for vod in (False, True):
            H = rng.choice([500 * MS, 1 * S])
            t = int((2.1 + 0.3 * rng.random()) * H)
            steps = [{"at": 0, "do": "start", "i": "A"}, {"at": H // 3, "do": "start", "i": "B"}, {"at": t, "do": "out_put", "cls": cls},
                     {"at": t + rng.choice([1, 5, 20]) * MS, "do": "validate", "i": "A", "vod": vod, "ctx_us": rng.choice([0, 300 * MS])}]
            out.append(scn("val-%s-%s-direct-%d" % (cls, "vod" if vod else "v", k), seed * 1000 + 900 + k, H, 5.0,
                           [inst("A", vi_us=2 * H), inst("B")], steps, "validate", 8 * H + 4 * S, lat=int(H * 0.04), part_timeout_us=2 * S))
    return out


def fam_groups(tier, seed):
    """two groups in one bucket: elections never touch each other's records."""
    rng = random.Random(seed * 7919 + 9)
    out = []
    for k in range(12 if tier == "quick" else 120):
        H = rng.choice(HS)
        ratio = rng.choice(RATIOS)
        insts = [inst("A", group="g"), inst("B", group="g2"), inst("C", group="g"), inst("D", group="g2")]
        steps = []
        for i in "ABCD":
            steps.append({"at": rng.randrange(0, 2 * H), "do": "start", "i": i})
        for i in rng.sample("ABCD", 2):
            st = dict(rng.choice(STOP_VARIANTS))
            st.update({"at": rng.randrange(3 * H, 7 * H), "i": i})
            steps.append(st)
        if rng.random() < 0.5:
            steps.append({"at": rng.randrange(3 * H, 7 * H), "do": "out_del", "key": rng.choice(["g", "g2"])})
        out.append(scn("groups-%d-%d" % (seed, k), seed * 1000 + k, H, ratio, insts, steps, "groups", 14 * H + 3 * S))
    return out


FAMILIES = {"core": fam_core, "stop": fam_stop, "faults": fam_faults, "vacancy": fam_vacancy, "prio": fam_prio,
            "health": fam_health, "conn": fam_conn, "validate": fam_validate, "groups": fam_groups}


def fam_regress(tier, seed):
    """directed schedules for interleavings first found by TLC on Election.tla (counterexamples of named deviations)
    or by the random families, kept as regression schedules with randomised timing constants."""
    rng = random.Random(seed * 7919 + 10)
    out = []
    reps = 3 if tier == "quick" else 25
    for k in range(reps):
        H = rng.choice([500 * MS, 1 * S])
        ratio = rng.choice([3.0, 5.0])
        two = [inst("A"), inst("B")]
        # 1. double promotion: B's Create applied, record removed, a second Create of B applied, both answered
        out.append(scn("reg-double-promotion-%d" % k, seed * 1000 + k, H, ratio, [inst("A"), inst("B")], [
            {"at": 0, "do": "start", "i": "A"}, {"at": H // 10, "do": "start", "i": "B"},
            {"at": int(2.5 * H), "do": "stopctx", "i": "A", "del": True},
            {"when": {"i": "B", "kind": "create", "src": "acq", "nth": 6, "phase": "post"}, "do": "out_del",
             "then": [{"do": "sleep", "us": 900 * MS}]}], "regress", 9 * H + 2 * S, lat=20 * MS, watch=30 * MS))
        # 1b. the same with the delayed Create applied only after the instance leads and its record vanished
        out.append(scn("reg-late-create-while-leading-%d" % k, seed * 1000 + k, H, ratio, [inst("A"), inst("B")], [
            {"at": 0, "do": "start", "i": "A"}, {"at": H // 10, "do": "start", "i": "B"},
            {"at": int(2.5 * H), "do": "stopctx", "i": "A", "del": True},
            {"when": {"i": "B", "kind": "create", "src": "acq", "nth": 6, "phase": "pre"}, "do": "noop",
             "then": [{"do": "sleep", "us": 900 * MS}, {"do": "out_del"}, {"do": "sleep", "us": 5 * MS}], "release": "now"}],
            "regress", 9 * H + 2 * S, lat=20 * MS, watch=30 * MS))
        # 7. three priorities: M's takeover read is answered only after H has taken over and M's watcher has seen it
        out.append(scn("reg-takeover-read-across-takeover-%d" % k, seed * 1000 + k, H, ratio,
                       [inst("A", prio=1), inst("B", prio=2, takeover=True), inst("C", prio=3, takeover=True)], [
            {"at": 0, "do": "start", "i": "A"}, {"at": H // 2, "do": "start", "i": "B"},
            {"when": {"i": "B", "kind": "get", "src": "takeover", "nth": 2, "phase": "post"}, "do": "start", "i": "C",
             "then": [{"do": "sleep", "us": int(1.6 * H)}]}], "regress", 10 * H + 2 * S, lat=20 * MS, watch=30 * MS,
            rules=[{"match": {"i": "B", "kind": "update", "src": "takeover"}, "fault": "fail:conflict", "from_nth": 1, "count": 1}]))
        # 8. a heartbeat write applied but answered only after the term has ended and the same instance leads again
        out.append(scn("reg-late-heartbeat-answer-across-terms-%d" % k, seed * 1000 + k, H, 3.0, [inst("A")], [
            {"at": 0, "do": "start", "i": "A"},
            {"when": {"i": "A", "kind": "update", "src": "hb", "nth": 2, "phase": "post"}, "do": "noop",
             "then": [{"do": "sleep", "us": 1 * S + 3 * H + 3 * H + 1500 * MS}]}], "regress", 14 * H + 6 * S, lat=20 * MS, watch=30 * MS))
        # 9. a preempted leader that receives no watch notification afterwards learns the new leader from its periodic check
        out.append(scn("reg-preempted-leader-without-notifications-%d" % k, seed * 1000 + k, H, ratio,
                       [inst("A", prio=1), inst("B", prio=2, takeover=True)], [
            {"at": 0, "do": "start", "i": "A"}, {"at": int(2.5 * H), "do": "start", "i": "B"}], "regress", 12 * H + 4 * S, lat=20 * MS, watch=30 * MS,
            rules=[{"match": {"i": "A", "kind": "deliver"}, "fault": "drop", "from_nth": 1, "count": 0}]))
        # 2. restart with a round of the previous run still in flight
        out.append(scn("reg-restart-stale-round-%d" % k, seed * 1000 + k, H, ratio, [inst("A"), inst("B")], [
            {"at": 0, "do": "start", "i": "B"}, {"at": H // 10, "do": "start", "i": "A"},
            {"at": int(2.5 * H), "do": "stopctx", "i": "B", "del": True},
            {"when": {"i": "A", "kind": "create", "src": "acq", "nth": 6, "phase": "pre"}, "do": "stopctx", "i": "A",
             "then": [{"do": "sleep", "us": 10 * MS}, {"do": "start", "i": "A"}], "release": "now"}], "regress", 9 * H + 2 * S, lat=20 * MS, watch=30 * MS))
        # 3. periodic-check read of the follower answered after it won the election (follower bookkeeping vs. leader state)
        for ph in ("pre", "post"):
            out.append(scn("reg-check-read-across-promotion-%s-%d" % (ph, k), seed * 1000 + k, H, ratio, [inst("A"), inst("B")], [
                {"at": 0, "do": "start", "i": "A"}, {"at": H // 10, "do": "start", "i": "B"},
                {"when": {"i": "B", "kind": "get", "src": "check", "nth": rng.choice([2, 3, 4]), "phase": ph}, "do": "stopctx", "i": "A", "del": True,
                 "then": [{"do": "sleep", "us": rng.choice([300, 500, 800]) * MS}]}], "regress", 8 * H + 2 * S, lat=20 * MS, watch=30 * MS))
        # 4. late notification of the previous leader's last version reaches the new leader
        out.append(scn("reg-late-event-%d" % k, seed * 1000 + k, H, ratio, [inst("A"), inst("B")], [
            {"at": 0, "do": "start", "i": "A"}, {"at": H // 10, "do": "start", "i": "B"},
            {"at": int(2.2 * H), "do": "stopctx", "i": "A", "del": True}],
            "regress", 8 * H + 2 * S, lat=20 * MS, watch=30 * MS,
            rules=[{"match": {"i": "B", "kind": "deliver"}, "fault": "slow:%d" % (rng.choice([600, 900, 1400]) * MS), "from_nth": 3, "count": 2}]))
        # 5. a heartbeat of a finished term still waiting for its answer when the next term starts
        out.append(scn("reg-old-term-loop-%d" % k, seed * 1000 + k, H, ratio, [inst("A", health_n=1, health="hu", health_rest="h")], [
            {"at": 0, "do": "start", "i": "A"},
            {"when": {"i": "A", "kind": "update", "src": "hb", "nth": 1, "phase": "pre"}, "do": "noop",
             "then": [{"do": "sleep", "us": int(0.9 * S)}], "release": "timeout"}], "regress", 12 * H + 4 * S, lat=20 * MS, watch=30 * MS,
            part_timeout_us=int(0.95 * S)))
        # 6. StopWithContext{DeleteKey} by a leader whose record has just been replaced
        for cls in ("as:B", "other"):
            out.append(scn("reg-delete-after-loss-%s-%d" % (cls.replace(":", "_"), k), seed * 1000 + k, H, ratio, [inst("A"), inst("B")], [
                {"at": 0, "do": "start", "i": "A"}, {"at": H // 10, "do": "start", "i": "B"},
                {"at": int(2.3 * H), "do": "out_put", "cls": cls},
                {"at": int(2.3 * H) + rng.choice([1, 50, 200]) * MS, "do": "stopctx", "i": "A", "del": True}], "regress", 8 * H + 2 * S, lat=20 * MS, watch=30 * MS))
        # 10. the leader's record rewritten by an outside party under the leader's own id (foreign token, newer revision)
        for cls in ("as:A", "asshort:A"):
            with_b = rng.random() < 0.5
            out.append(scn("reg-own-id-foreign-write-%s-%d" % (cls.replace(":", "_"), k), seed * 1000 + k, H, ratio,
                           [inst("A"), inst("B")] if with_b else [inst("A")],
                           [{"at": 0, "do": "start", "i": "A"}] + ([{"at": H // 10, "do": "start", "i": "B"}] if with_b else []) +
                           [{"at": int((2.1 + rng.random() * 0.8) * H), "do": "out_put", "cls": cls}], "regress", 9 * H + 2 * S, lat=20 * MS, watch=30 * MS))
        # 11. one background validation has failed, the next one is in flight, and the term ends by another cause in that window
        for cause in ("stop", "stopctx", "stopctxdel", "hb"):
            ev = {"stop": {"do": "stop", "i": "A"}, "stopctx": {"do": "stopctx", "i": "A"}, "stopctxdel": {"do": "stopctx", "i": "A", "del": True},
                  "hb": {"do": "out_put", "cls": "as:B"}}[cause]
            out.append(scn("reg-term-ends-during-second-validation-%s-%d" % (cause, k), seed * 1000 + k, H, 5.0, [inst("A", vi_us=H + H // 2)], [
                {"at": 0, "do": "start", "i": "A"},
                dict(ev, when={"i": "A", "kind": "get", "src": "validate", "nth": 2, "phase": "pre"},
                     then=[{"do": "sleep", "us": H + H // 4 if cause == "hb" else 300 * MS}])], "regress", 10 * H + 3 * S, lat=20 * MS, watch=30 * MS,
                rules=[{"match": {"i": "A", "kind": "get", "src": "validate"}, "fault": "fail:other", "from_nth": 1, "count": 1}]))
        # 12. the answer of a takeover Update issued before a Stop/Start arrives while the restarted instance leads again
        #     (the stop gives up waiting for it; found by the soak in the stop family, variant restart_held)
        for v in rng.sample(range(len(STOP_VARIANTS)), 2):
            st = dict(STOP_VARIANTS[v])
            st.update({"when": {"i": "B", "kind": "update", "src": "takeover", "nth": 2, "phase": "post"}, "i": "B",
                       "then": [{"do": "sleep", "us": 6 * S + 500 * MS}, {"do": "start", "i": "B"}, {"do": "sleep", "us": rng.choice([700, 1000, 1400]) * MS}]})
            out.append(scn("reg-takeover-answer-after-restart-v%d-%d" % (v, k), seed * 1000 + k, H, 5.0,
                           [inst("A", vi_us=H, prio=1), inst("B", vi_us=H, prio=2, takeover=True)],
                           [{"at": 0, "do": "start", "i": "A"}, {"at": H // 4, "do": "start", "i": "B"}, st], "regress", 9 * S + 8 * H,
                           rules=[{"match": {"i": "B", "kind": "update", "src": "takeover"}, "fault": "fail:conflict", "from_nth": 1, "count": 1}]))
        # 13. the leader's OnPromote callback winds down slowly: StopWithContext{DeleteKey} waits for it past the expiry of the
        #     record and a successor's acquisition; whatever the stop decided about ownership earlier is stale by then
        Hs = 500 * MS
        out.append(scn("reg-slow-wind-down-across-expiry-%d" % k, seed * 1000 + k, Hs, 3.0,
                       [inst("A", promote_drain_us=rng.choice([2500, 3000, 3500]) * MS), inst("B"), inst("C")],
                       [{"at": 0, "do": "start", "i": "A"}, {"at": Hs // 5, "do": "start", "i": "B"}, {"at": Hs // 3, "do": "start", "i": "C"},
                        {"at": int((2.1 + rng.random()) * Hs), "do": "stopctx", "i": "A", "del": True}], "regress", 14 * Hs + 5 * S, lat=20 * MS, watch=30 * MS))
        # 14. a takeover candidate whose reads of the record keep answering "not found" while its Creates keep answering
        #     "exists" (a store that is inconsistent for this client): rounds stay bounded (four Creates, backed off, no recursion)
        out.append(scn("reg-takeover-read-not-found-while-record-exists-%d" % k, seed * 1000 + k, H, ratio,
                       [inst("A", prio=1), inst("B", prio=2, takeover=True)],
                       [{"at": 0, "do": "start", "i": "A"}, {"at": H // 4, "do": "start", "i": "B"}], "regress", 6 * H + 2 * S, lat=20 * MS, watch=30 * MS,
                       rules=[{"match": {"i": "B", "kind": "get", "src": "takeover"}, "fault": "fail:notfound", "from_nth": 1, "count": 0}]))
        #     the same inside an acquisition round: the start attempt reads the record of a higher-priority leader and gives way
        out.append(scn("reg-round-read-not-found-while-record-exists-%d" % k, seed * 1000 + k, H, ratio,
                       [inst("A", prio=3), inst("B", prio=2, takeover=True)],
                       [{"at": 0, "do": "start", "i": "A"}, {"at": H // 4, "do": "start", "i": "B"}], "regress", 6 * H + 2 * S, lat=20 * MS, watch=30 * MS,
                       rules=[{"match": {"i": "B", "kind": "get", "src": "takeover"}, "fault": "fail:notfound", "from_nth": 2, "count": 0}]))
        # 17. the answer of a successful Create arrives after the record it created has expired and a successor's record has been
        #     observed: the late promotion must not combine its own token with the successor's revision
        H1 = 1 * S
        out.append(scn("reg-late-create-answer-after-successor-%d" % k, seed * 1000 + k, H1, 3.0, [inst("A"), inst("B"), inst("C")], [
            {"at": 0, "do": "start", "i": "A"}, {"at": H1 // 10, "do": "start", "i": "B"},
            {"at": int(2.5 * H1), "do": "stopctx", "i": "A", "del": True}, {"at": 3 * H1, "do": "start", "i": "C"},
            {"when": {"i": "B", "kind": "create", "src": "acq", "nth": 6, "phase": "post"}, "do": "noop",
             "then": [{"do": "sleep", "us": rng.choice([4050, 4100, 4150]) * MS}]},
            {"when": {"i": "C", "kind": "update", "src": "hb", "nth": 1, "phase": "pre"}, "do": "noop", "then": [{"do": "sleep", "us": 1600 * MS}]}],
            "regress", 14 * H1 + 2 * S, lat=20 * MS, watch=30 * MS,
            rules=[{"match": {"i": "B", "kind": "create", "src": "acq"}, "fault": "slow:800000", "from_nth": 7, "count": 0}]))   # C wins the race after the expiry
        # 18. followers whose connection was reported lost and back: they still take part (periodic check without notifications,
        #     takeover of a lower-priority leader that won the race because this follower's notifications are late)
        out.append(scn("reg-follower-after-reconnect-fills-vacancy-%d" % k, seed * 1000 + k, H, ratio, [inst("A"), inst("B", conn=True)], [
            {"at": 0, "do": "start", "i": "A"}, {"at": H // 4, "do": "start", "i": "B"},
            {"at": int(1.5 * H), "do": "disc", "i": "B"}, {"at": int(1.8 * H), "do": "reconn", "i": "B"},
            {"at": 3 * H, "do": "stopctx", "i": "A", "del": True}], "regress", 6 * H + 4 * S, lat=20 * MS, watch=30 * MS,
            rules=[{"match": {"i": "B", "kind": "deliver"}, "fault": "drop", "from_nth": 3, "count": 0}]))
        out.append(scn("reg-follower-after-reconnect-preempts-%d" % k, seed * 1000 + k, H1, 5.0,
                       [inst("A", prio=3), inst("C", prio=1), inst("B", prio=2, takeover=True, conn=True)], [
            {"at": 0, "do": "start", "i": "A"}, {"at": H1 // 4, "do": "start", "i": "C"}, {"at": H1 // 2, "do": "start", "i": "B"},
            {"at": int(1.5 * H1), "do": "disc", "i": "B"}, {"at": int(1.8 * H1), "do": "reconn", "i": "B"},
            {"at": 3 * H1, "do": "stopctx", "i": "A", "del": True}], "regress", 9 * H1 + 2 * S, lat=20 * MS, watch=30 * MS,
            rules=[{"match": {"i": "B", "kind": "deliver"}, "fault": "slow:400000", "from_nth": 1, "count": 0}]))
        # 20. the application cancels the context it gave to Start and then stops the election: the stop call still does its work
        for v in rng.sample(range(len(STOP_VARIANTS)), 2):
            out.append(scn("reg-stop-after-start-context-cancelled-v%d-%d" % (v, k), seed * 1000 + k, H, ratio, [inst("A"), inst("B")], [
                {"at": 0, "do": "start", "i": "A"}, {"at": H // 4, "do": "start", "i": "B"},
                {"at": int(2.3 * H), "do": "cancel_start_ctx", "i": rng.choice("AB")}, {"at": int(2.3 * H), "do": "cancel_start_ctx", "i": "A"},
                dict(STOP_VARIANTS[v], at=int(2.3 * H) + rng.choice([0, 10 * MS]), i="A")], "regress", 8 * H + 2 * S, lat=20 * MS, watch=30 * MS))
        # 21. an OnPromote callback that panics (the library recovers it): the term goes on, and ends like any other when the record is lost
        for cls in ("as:B", "del"):
            out.append(scn("reg-promote-callback-panics-%s-%d" % (cls.replace(":", "_"), k), seed * 1000 + k, H, ratio,
                           [inst("A", promote_panic=True), inst("B")],
                           [{"at": 0, "do": "start", "i": "A"}, {"at": H // 4, "do": "start", "i": "B"},
                            ({"at": int(2.3 * H), "do": "out_put", "cls": cls} if cls != "del" else {"at": int(2.3 * H), "do": "out_del"})],
                           "regress", 9 * H + 2 * S, lat=20 * MS, watch=30 * MS))
        # 22. an OnDemote callback that calls Stop() (demotion observed by the watcher of an instance that followed before it led)
        out.append(scn("reg-demote-callback-calls-stop-%d" % k, seed * 1000 + k, H, ratio, [inst("A"), inst("B", demote_calls_stop=True)], [
            {"at": 0, "do": "start", "i": "A"}, {"at": H // 4, "do": "start", "i": "B"},
            {"at": int(2.3 * H), "do": "stopctx", "i": "A", "del": True},
            {"at": int(4.6 * H), "do": "out_put", "cls": "as:A"}], "regress", 16 * H + 8 * S, lat=20 * MS, watch=30 * MS))
        # 23. a stop call that has left its critical section but not yet written its log line (scheduler gate there), and the
        #     answer of an acquisition that was in flight arrives in that window: a stopped election takes no leadership
        out.append(scn("reg-acquisition-answered-inside-stop-%d" % k, seed * 1000 + k, H, ratio,
                       [inst("A"), inst("B", gate_log="election_stopped", gate_free=True)], [
            {"at": 0, "do": "start", "i": "A"}, {"at": H // 10, "do": "start", "i": "B"},
            {"at": int(2.5 * H), "do": "stopctx", "i": "A", "del": True},
            {"when": {"i": "B", "kind": "create", "src": "acq", "nth": 6, "phase": "post"}, "do": "stop", "i": "B",
             "then": [{"do": "sleep", "us": 50 * MS}], "release": "now"},
            {"at": int(2.5 * H) + 1 * S, "do": "release_gate", "i": "B"}], "regress", 9 * H + 2 * S, lat=20 * MS, watch=30 * MS))
        # 24. a stop call issued while a successful Create has been answered and the instance stands before its promotion
        #     (scheduler gate at the "acquire_success" log line)
        out.append(scn("reg-stop-between-create-answer-and-promotion-%d" % k, seed * 1000 + k, H, ratio,
                       [inst("A", gate_log="acquire_success", gate_free=True), inst("B")], [
            {"at": 0, "do": "start", "i": "A"}, {"at": 100 * MS, "do": "stop", "i": "A"}, {"at": 200 * MS, "do": "release_gate", "i": "A"},
            {"at": 300 * MS, "do": "start", "i": "B"}], "regress", 9 * H + 2 * S, lat=20 * MS, watch=30 * MS))
        # 25. StopWithContext{DeleteKey} with a short time-out while the store does not answer: it returns within its time-out
        for mode in ("hang", "timeout"):
            out.append(scn("reg-stop-delete-store-unreachable-%s-%d" % (mode, k), seed * 1000 + k, H, ratio, [inst("A"), inst("B")], [
                {"at": 0, "do": "start", "i": "A"}, {"at": H // 4, "do": "start", "i": "B"},
                {"at": int(2.3 * H), "do": "partition", "i": "A", "mode": mode},
                {"at": int(2.3 * H) + 50 * MS, "do": "stopctx", "i": "A", "del": True, "timeout_us": rng.choice([300, 600]) * MS},
                {"at": int(2.3 * H) + 4 * S, "do": "heal", "i": "A"}], "regress", 8 * H + 6 * S, lat=20 * MS, watch=30 * MS, part_timeout_us=3 * S))
        # 26. refreshes that keep failing while a health checker with a large failure threshold is configured: the third failed
        #     refresh ends the term whatever that threshold is
        fk = rng.choice(["fail:timeout", "fail:noresponders", "timeout", "fail:other"])
        hn = rng.choice([5, 8, 10])
        out.append(scn("reg-refreshes-fail-with-health-threshold-%d-%s-%d" % (hn, fk.replace(":", "_"), k), seed * 1000 + k, H, 5.0,
                       [inst("A", health_n=hn, health="", health_rest="h"), inst("B")],
                       [{"at": 0, "do": "start", "i": "A"}, {"at": H // 4, "do": "start", "i": "B"}], "regress", 16 * H + 6 * S,
                       rules=[{"match": {"i": "A", "kind": "update", "src": "hb"}, "fault": fk, "from_nth": rng.choice([1, 2, 3]), "count": 0}],
                       lat=20 * MS, watch=30 * MS, part_timeout_us=2 * S))
        # 27. a demotion callback that takes longer than the record's TTL, after a demotion by the heartbeat: the same (only)
        #     instance fills the vacancy meanwhile
        H2 = 200 * MS
        out.append(scn("reg-slow-demote-callback-then-reacquire-%d" % k, seed * 1000 + k, H2, 3.0,
                       [inst("A", demote_dur_us=rng.choice([3, 4]) * S)],
                       [{"at": 0, "do": "start", "i": "A"}, {"at": int((2.2 + rng.random()) * H2), "do": "out_del"}], "regress", 12 * S,
                       lat=10 * MS, watch=20 * MS))
        # 28. the last "key exists" answer of a losing acquisition round arrives while a younger round of the same instance is
        #     inside its promotion (scheduler gate in the metrics callback that counts the transition to LEADER)
        out.append(scn("reg-losing-round-answered-inside-promotion-%d" % k, seed * 1000 + k, H, ratio,
                       [inst("A"), inst("B", gate_trans_to="LEADER")], [
            {"at": 0, "do": "start", "i": "A"}, {"at": H // 10, "do": "start", "i": "B"},
            {"when": {"i": "B", "kind": "create", "src": "acq", "nth": 5, "phase": "post"}, "do": "stopctx", "i": "A", "del": True,
             "then": [{"do": "sleep", "us": rng.choice([450, 600]) * MS}, {"do": "release_gate", "i": "B"}], "release": "now"}],
            "regress", 9 * H + 3 * S, lat=10 * MS, watch=20 * MS))
        # 29. a StopWithContext that times out while the watch loop is stuck in the store, a restart of the same object, then a
        #     change of leader: the restarted follower follows the new leader
        for kind in ("watch", "get"):
            m = {"i": "B", "kind": kind, "nth": 1, "phase": "pre"}
            if kind == "get":
                m["src"] = "check"
            out.append(scn("reg-restart-after-timed-out-stopctx-follows-new-leader-%s-%d" % (kind, k), seed * 1000 + k, H, ratio,
                           [inst("A"), inst("B"), inst("C")], [
                {"at": 0, "do": "start", "i": "A"}, {"at": H // 4, "do": "start", "i": "B"}, {"at": H // 3, "do": "start", "i": "C"},
                {"when": m, "do": "stopctx", "i": "B", "timeout_us": 300 * MS,
                 "then": [{"do": "sleep", "us": 1 * S}, {"do": "start", "i": "B"}, {"do": "sleep", "us": 1 * S}]},
                {"at": 5 * S + 2 * H, "do": "stopctx", "i": "A", "del": True}], "regress", 9 * S + 10 * H, lat=20 * MS, watch=30 * MS))
        # 30. the record is replaced by an outside party (with a higher priority) between a take-over's read and its write
        out.append(scn("reg-record-replaced-between-takeover-read-and-write-%d" % k, seed * 1000 + k, H, ratio,
                       [inst("A", prio=1), inst("B", prio=5, takeover=True)], [
            {"at": 0, "do": "start", "i": "A"}, {"at": H // 4, "do": "start", "i": "B"},
            {"when": {"i": "B", "kind": "get", "src": "takeover", "nth": 1, "phase": "post"}, "do": "out_put", "cls": "priohuge",
             "then": [{"do": "sleep", "us": 5 * MS}], "release": "now"}], "regress", 12 * H + 3 * S, lat=20 * MS, watch=30 * MS))
        # 31. the leader's record is taken over while a reconnect verification is under way, and a heartbeat of the old leader
        #     falls between the two reads of that verification: the refresh goes against the leader's own last revision
        Hc = 1 * S
        out.append(scn("reg-heartbeat-between-the-reads-of-reconnect-verification-%d" % k, seed * 1000 + k, Hc, 5.0,
                       [inst("A", prio=1, conn=True, grace_us=20 * S), inst("B", prio=5, takeover=True)], [
            {"at": 0, "do": "start", "i": "A"}, {"at": int(2.3 * Hc), "do": "start", "i": "B"},
            {"at": int(2.42 * Hc), "do": "disc", "i": "A"}, {"at": int(2.45 * Hc), "do": "reconn", "i": "A"},
            {"when": {"i": "A", "kind": "get", "src": "validate", "nth": 1, "phase": "pre"}, "do": "noop",
             "then": [{"do": "sleep", "us": rng.choice([600, 700]) * MS}]}], "regress", 10 * Hc + 2 * S, lat=10 * MS, watch=20 * MS))
        # 32. two acquisition rounds of one takeover-enabled instance (equal priorities everywhere): the first round's Create
        #     succeeded but its answer is late; the sibling round finds the instance's own fresh record
        Hs = 2 * S
        out.append(scn("reg-sibling-round-reads-own-fresh-record-%d" % k, seed * 1000 + k, Hs, 5.0,
                       [inst("A", prio=1, takeover=True), inst("B", prio=1, takeover=True)], [
            {"at": 0, "do": "start", "i": "A"}, {"at": Hs // 10, "do": "start", "i": "B"},
            {"at": int(1.6 * Hs), "do": "stopctx", "i": "A", "del": True},
            {"when": {"i": "B", "kind": "create", "src": "acq", "nth": 6, "phase": "post"}, "do": "noop",
             "then": [{"do": "sleep", "us": rng.choice([650, 750]) * MS}], "release": "now"},
            {"when": {"i": "B", "kind": "update", "src": "takeover", "nth": 1, "phase": "post"}, "do": "noop",
             "then": [{"do": "sleep", "us": 800 * MS}], "release": "now"}], "regress", 8 * Hs + 2 * S, lat=10 * MS, watch=20 * MS))
        # 33. a takeover-enabled instance with a health checker steps down after unhealthy results, recovers, and a lower-priority
        #     instance wins the record after its expiry: the recovered instance preempts it promptly
        Hh = 1 * S
        out.append(scn("reg-takeover-after-health-demotion-and-recovery-%d" % k, seed * 1000 + k, Hh, 3.0,
                       [inst("A", prio=5, takeover=True, health_n=2, health="hhuu", health_rest="h"), inst("B", prio=1)], [
            {"at": 0, "do": "start", "i": "A"}, {"at": Hh // 4, "do": "start", "i": "B"},
            # (A's first Creates after the expiry reach the store late, so that B wins the vacancy)
            {"when": {"i": "A", "kind": "create", "src": "acq", "nth": 6, "phase": "pre"}, "do": "noop",
             "then": [{"do": "sleep", "us": 700 * MS}]},
            {"when": {"i": "A", "kind": "create", "src": "acq", "nth": 7, "phase": "pre"}, "do": "noop",
             "then": [{"do": "sleep", "us": 700 * MS}]}], "regress", 16 * Hh + 2 * S, lat=10 * MS, watch=20 * MS))
        # 34. a late notification of the deposed leader's last refresh is handled by the watch loop while another goroutine of
        #     the same instance stands inside its promotion (gate in the transition metric): the new leader is not disturbed
        Hw = 1 * S
        out.append(scn("reg-late-notification-inside-promotion-%d" % k, seed * 1000 + k, Hw, 3.0,
                       [inst("A", prio=5, takeover=True, gate_trans_to="LEADER", gate_trans_nth=2), inst("B", prio=1)], [
            {"at": 0, "do": "start", "i": "A"}, {"at": 300 * MS, "do": "start", "i": "B"},
            # A leaves its record behind and is started again: a follower with a watch loop (its own stale record is not taken over)
            {"at": 1500 * MS, "do": "stop", "i": "A"}, {"at": 1700 * MS, "do": "start", "i": "A"},
            # after the expiry B wins the vacancy (A's Create reaches the store late) ...
            {"when": {"i": "A", "kind": "create", "src": "acq", "nth": 7, "phase": "pre"}, "do": "noop", "then": [{"do": "sleep", "us": 300 * MS}]},
            # ... and the notification of B's record reaches A only while A stands inside its promotion (take-over of B's record)
            # (ordinals of deliveries count by two: the third delivery to A is number 6)
            {"when": {"i": "A", "kind": "deliver", "nth": 6, "phase": "pre"}, "do": "noop",
             "then": [{"do": "sleep", "us": rng.choice([550, 650]) * MS}, {"do": "release_gate", "i": "A"}], "release": "now"},
            ], "regress", 14 * Hw, lat=10 * MS, watch=20 * MS))
        # 35. an election with connection monitoring is stopped and started again: the library's monitor cannot be started twice,
        #     the Start call is refused and the election stays what it was (STOPPED)
        out.append(scn("reg-restart-refused-by-connection-monitor-%d" % k, seed * 1000 + k, H, ratio,
                       [inst("A", conn=True), inst("B")], [
            {"at": 0, "do": "start", "i": "A"}, {"at": H // 4, "do": "start", "i": "B"},
            dict(rng.choice(STOP_VARIANTS[:3]), at=int(2.3 * H), i="A"), {"at": int(2.3 * H) + 1 * S, "do": "start", "i": "A"}],
            "regress", 8 * H + 3 * S, lat=20 * MS, watch=30 * MS))
        # 36. a Watch call that fails once with an error whose text looks permanent (a permissions violation), later a vacancy:
        #     the follower keeps its watch loop and fills it
        for wf in ("bucketnotfound", "authentication expired"):
            out.append(scn("reg-watch-fails-once-with-permanent-looking-error-%s-%d" % (wf.split()[0], k), seed * 1000 + k, H, ratio, [inst("A"), inst("B")], [
                {"at": 0, "do": "start", "i": "A"}, {"at": H // 4, "do": "start", "i": "B"},
                {"at": int(3.3 * H) + 2 * S, "do": "stopctx", "i": "A", "del": True}], "regress", 10 * H + 4 * S,
                rules=[{"match": {"i": "B", "kind": "watch"}, "fault": "fail:" + wf, "from_nth": 1, "count": 1}],
                lat=20 * MS, watch=30 * MS))
        # 37. the same store contract spoken with the plain error texts of a simple KeyValue implementation (the repository's
        #     mock says "key already exists", "key not found", "revision mismatch"): schedules 1 and 1b, and a record deleted
        #     under a leader that has no watch loop
        out.append(scn("reg-plain-double-promotion-%d" % k, seed * 1000 + k, H, ratio, [inst("A"), inst("B")], [
            {"at": 0, "do": "start", "i": "A"}, {"at": H // 10, "do": "start", "i": "B"},
            {"at": int(2.5 * H), "do": "stopctx", "i": "A", "del": True},
            {"when": {"i": "B", "kind": "create", "src": "acq", "nth": 6, "phase": "post"}, "do": "out_del",
             "then": [{"do": "sleep", "us": 900 * MS}]}], "regress", 9 * H + 2 * S, lat=20 * MS, watch=30 * MS, err_dialect="plain"))
        out.append(scn("reg-plain-late-create-while-leading-%d" % k, seed * 1000 + k, H, ratio, [inst("A"), inst("B")], [
            {"at": 0, "do": "start", "i": "A"}, {"at": H // 10, "do": "start", "i": "B"},
            {"at": int(2.5 * H), "do": "stopctx", "i": "A", "del": True},
            {"when": {"i": "B", "kind": "create", "src": "acq", "nth": 6, "phase": "pre"}, "do": "noop",
             "then": [{"do": "sleep", "us": 900 * MS}, {"do": "out_del"}, {"do": "sleep", "us": 5 * MS}], "release": "now"}],
            "regress", 9 * H + 2 * S, lat=20 * MS, watch=30 * MS, err_dialect="plain"))
        out.append(scn("reg-plain-record-deleted-under-leader-%d" % k, seed * 1000 + k, H, 5.0, [inst("A"), inst("B")], [
            {"at": 0, "do": "start", "i": "A"}, {"at": 6 * H, "do": "start", "i": "B"},     # (nobody else notices the deletion first)
            {"at": int((2.2 + 0.6 * rng.random()) * H), "do": "out_del"}], "regress", 9 * H + 2 * S, lat=20 * MS, watch=30 * MS, err_dialect="plain"))
        # 19. a heartbeat tick held by a hanging health check while the leader is preempted and, as a follower, observes its
        #     successor's next refresh: when the check returns the tick must not go on to the Update
        out.append(scn("reg-hanging-check-across-preemption-%d" % k, seed * 1000 + k, H1, 5.0,
                       [inst("A"), inst("B", prio=1, health_n=3, health="hhx", health_rest="h", health_hang_us=int(1.9 * H1)),
                        inst("C", prio=2, takeover=True)], [
            {"at": 0, "do": "start", "i": "A"}, {"at": H1 // 4, "do": "start", "i": "B"},
            {"at": int(1.2 * H1), "do": "stopctx", "i": "A", "del": True},
            {"at": int(4.8 * H1), "do": "start", "i": "C"}],
            "regress", 12 * H1 + 2 * S, lat=20 * MS, watch=30 * MS))
        # 15. a follower-side read (periodic check) issued before the instance won the election is answered only after a
        #     higher-priority instance has taken its record over: the read must not touch the leader's own bookkeeping
        H1 = 1 * S
        out.append(scn("reg-follower-read-answered-after-own-term-was-preempted-%d" % k, seed * 1000 + k, H1, ratio,
                       [inst("A"), inst("B", prio=1), inst("C", prio=3, takeover=True)], [
            {"at": 0, "do": "start", "i": "A"}, {"at": H1 // 4, "do": "start", "i": "B"},
            {"when": {"i": "B", "kind": "create", "src": "acq", "nth": 5, "phase": "pre"}, "do": "stopctx", "i": "A", "del": True,
             "then": [{"do": "sleep", "us": 700 * MS}]},
            {"when": {"i": "B", "kind": "get", "src": "check", "nth": 1, "phase": "pre"}, "do": "noop",
             "then": [{"do": "sleep", "us": 900 * MS}, {"do": "start", "i": "C"}, {"do": "sleep", "us": rng.choice([350, 400, 450]) * MS}]}],
            "regress", 9 * H1 + 2 * S, lat=20 * MS, watch=30 * MS))
        # 16. Stop of a leader whose OnPromote callback (or another goroutine Stop waits for) needs longer than Stop's 5 s wait
        for v in ("stop", "stopctx"):
            out.append(scn("reg-stop-outlasted-by-slow-wind-down-%s-%d" % (v, k), seed * 1000 + k, H, ratio,
                           [inst("A", promote_drain_us=rng.choice([5500, 6500, 8000]) * MS), inst("B")],
                           [{"at": 0, "do": "start", "i": "A"}, {"at": H // 4, "do": "start", "i": "B"},
                            dict({"do": v, "i": "A"}, at=int(2.4 * H))] +
                           ([{"at": int(2.4 * H) + 12 * S, "do": "start", "i": "A"}] if rng.random() < 0.5 else []),
                           "regress", int(2.4 * H) + 20 * S, lat=20 * MS, watch=30 * MS))
    return out


FAMILIES["regress"] = fam_regress


def fam_witness(tier, seed):
    """strict schedules derived from TLC behaviours of Election.tla (tools/witness.py): shortest counterexamples of the
    named deviations; on the unchanged tree they pass, on a tree with the deviation they make the monitor fail."""
    import glob, json, os
    out = []
    root = os.path.dirname(os.path.dirname(os.path.abspath(__file__)))
    for p in sorted(glob.glob(os.path.join(root, "schedules", "*.json"))):
        sc = json.load(open(p))
        for k in range(1 if tier == "quick" else 5):
            c = json.loads(json.dumps(sc))
            c["seed"] = seed * 1000 + k
            if k:
                c["name"] = "%s~r%d" % (sc["name"], k)
            out.append(c)
    return out


FAMILIES["witness"] = fam_witness


def fam_slowop(tier, seed):
    """one slow store operation x one concurrent event: every kind of operation of a leader, a follower and a takeover candidate
    is held before or after its application for a duration on the lattice {H, TTL/2, TTL+2H, long}, while one event from
    {nothing, leader stops with delete, outside delete, outside replacement naming the other / the same instance, follower stops,
    third instance with higher priority starts} happens during the hold."""
    rng = random.Random(seed * 7919 + 11)
    points = []
    for ph in ("pre", "post"):
        for nth in (1, 2, 3):
            points.append({"i": "A", "kind": "update", "src": "hb", "nth": nth, "phase": ph})
        points.append({"i": "A", "kind": "get", "src": "validate", "nth": 1, "phase": ph})
        points.append({"i": "B", "kind": "watch", "nth": 1, "phase": ph})
        for nth in (1, 2, 3):
            points.append({"i": "B", "kind": "get", "src": "check", "nth": nth, "phase": ph})
        for nth in (2, 4, 5):
            points.append({"i": "B", "kind": "create", "src": "acq", "nth": nth, "phase": ph})
        points.append({"i": "B", "kind": "get", "src": "takeover", "nth": 1, "phase": ph})
        points.append({"i": "B", "kind": "get", "src": "takeover", "nth": 2, "phase": ph})
        points.append({"i": "B", "kind": "update", "src": "takeover", "nth": 1, "phase": ph})
    events = ["none", "stopdel_A", "out_del", "out_put:as:B", "out_put:as:A", "stop_B", "start_C"]
    combos = [(p, d, e) for p in points for d in ("H", "halfTTL", "TTL2H", "long") for e in events]
    chosen = sample(rng, combos, 90 if tier == "quick" else 900)
    out = []
    for k, (pt, dur, evn) in enumerate(chosen):
        H = rng.choice([500 * MS, 1 * S])
        ratio = rng.choice([3.0, 3.5, 5.0])
        ttl = int(ratio * H)
        prio = pt.get("src") == "takeover" or evn == "start_C" or rng.random() < 0.2
        insts = [inst("A", prio=1 if prio else 0, vi_us=H), inst("B", prio=2 if prio else 0, takeover=prio, vi_us=H)]
        if evn == "start_C":
            insts.append(inst("C", prio=3, takeover=True))
        d = {"H": H, "halfTTL": ttl // 2, "TTL2H": ttl + 2 * H, "long": ttl + 2 * H + 2 * S}[dur]
        then = []
        ev_at = rng.choice([d // 10, d // 3, d // 2])
        ev_step = {"stopdel_A": {"do": "stopctx", "i": "A", "del": True}, "out_del": {"do": "out_del"},
                   "out_put:as:B": {"do": "out_put", "cls": "as:B"}, "out_put:as:A": {"do": "out_put", "cls": "as:A"},
                   "stop_B": {"do": "stop", "i": "B"}, "start_C": {"do": "start", "i": "C"}}.get(evn)
        if ev_step:
            then = [{"do": "sleep", "us": ev_at}, ev_step, {"do": "sleep", "us": d - ev_at}]
        else:
            then = [{"do": "sleep", "us": d}]
        steps = [{"at": 0, "do": "start", "i": "A"}, {"at": H // 3, "do": "start", "i": "B"},
                 {"when": pt, "do": "noop", "then": then}]
        # later acquisition attempts of B only exist if A goes away at some point
        if pt["i"] == "B" and pt["kind"] == "create" and pt["nth"] >= 4 and evn != "stopdel_A":
            steps.append({"at": int(2.2 * H), "do": "stopctx", "i": "A", "del": True})
        name = "slow-%s-%s%s%d%s-%s-%s-%d" % (pt["i"], pt["kind"], pt.get("src", ""), pt["nth"], pt["phase"], dur, evn.replace(":", "_"), k)
        out.append(scn(name, seed * 1000 + k, H, ratio, insts, steps, "slowop", 8 * H + d + ttl + 4 * S, lat=int(H * 0.05), watch=int(H * 0.1),
                       part_timeout_us=2 * S))
    return out


FAMILIES["slowop"] = fam_slowop


def fam_conform(tier, seed):
    """random behaviours of the model (TLC -simulate) replayed step by step on the real code (tools/simgen.py)."""
    import simgen
    return simgen.generate(40 if tier == "quick" else 400, seed)


FAMILIES["conform"] = fam_conform


def generate(family, tier, seed):
    scs = FAMILIES[family](tier, seed)
    names = set()
    for s in scs:  # names are the key that links violations to schedules
        base, n = s["name"], 1
        while s["name"] in names:
            n += 1
            s["name"] = "%s~%d" % (base, n)
        names.add(s["name"])
    return scs
