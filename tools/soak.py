#!/usr/bin/env python3
"""Development tool: false-alarm soak. Repeats the scenario families of the quick tier with many seeds on the current tree and
lists every violation record that is not a known finding (on the unchanged tree there must be none)."""
import sys, os, json, collections, shutil, glob, time
sys.path.insert(0, os.path.dirname(os.path.abspath(__file__)))
import verif, gen
rounds = int(sys.argv[1]) if len(sys.argv) > 1 else 10
tier = sys.argv[2] if len(sys.argv) > 2 else "quick"
known = verif.load_known()
tot = collections.Counter()
t0 = time.time()
for r in range(rounds):
    seed = 100 + r
    th = verif.tree_hash()
    for fam in gen.FAMILIES:
        try:
            d, meta = verif.corpus(th, fam, tier, seed)
        except verif.Inconclusive as ex:
            print("INCONCLUSIVE", fam, seed, str(ex)[:500], flush=True); continue
        for l in open(os.path.join(d, "viol.ndjson")):
            if l.strip():
                v = json.loads(l)
                if any(k["p"] == v["p"] and v["c"].startswith(k["clause"]) for k in known):
                    continue
                tot[(fam, v["p"], v["c"])] += 1
                print("ALARM seed=%d family=%s %s %s scenario=%s event=%s" % (seed, fam, v["p"], v["c"], v["scn"], v["seq"]), flush=True)
                keep = os.path.join("/verif/work/soak-alarms", "%s-%d" % (fam, seed))
                if not os.path.exists(keep):
                    os.makedirs(os.path.dirname(keep), exist_ok=True)
                    shutil.copytree(d, keep)
        shutil.rmtree(d, ignore_errors=True)
    print("round %d done (%.0fs) alarms so far: %s" % (r, time.time() - t0, dict(tot)), flush=True)
