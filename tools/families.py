"""Which scenario families and which TLC models serve which property, and when a trace counts as
non-trivial for a property (the rule is evaluated on the recorded events, never assumed)."""
import glob, hashlib, json, os, re, time


def has(evs, ev, **kw):
    for e in evs:
        if e.get("ev") == ev and all(e.get(k) == v for k, v in kw.items()):
            return True
    return False


def count(evs, ev, **kw):
    return sum(1 for e in evs if e.get("ev") == ev and all(e.get(k) == v for k, v in kw.items()))


PROPS = {
    "C01": {"families": ["conform", "witness", "slowop", "regress", "core", "prio", "faults", "groups", "stop"],
            "nontrivial_rule": "at least two successful record mutations by different writers or a takeover/delete",
            "mc": ["MC_Core2", "MC_Prio"]},
    "C02": {"families": ["conform", "witness", "regress", "core", "stop", "health"],
            "nontrivial_rule": "two or more instances started and at least one claim edge",
            "mc": ["MC_Core2"]},
    "C03": {"families": ["slowop", "regress", "faults", "validate"],
            "nontrivial_rule": "a leader loses its record or has a failed/timed-out refresh",
            "mc": ["MC_Faults", "MC_Outside"]},
    "C04": {"families": ["validate"],
            "nontrivial_rule": "a ValidateToken / ValidateTokenOrDemote call returned",
            "mc": ["MC_Validate", "MC_OutsideVal"]},
    "C05": {"families": ["conform", "witness", "slowop", "regress", "core", "prio", "faults", "health"],
            "nontrivial_rule": "two or more successful acquisitions (terms) in the trace",
            "mc": ["MC_Core2", "MC_Prio"]},
    "C06": {"families": ["vacancy", "regress", "faults", "stop"],
            "nontrivial_rule": "the record becomes vacant (delete, expiry) while another instance runs",
            "mc": ["MC_Vacancy", "MC_VacancyFault", "MC_Faults"]},
    "C07": {"families": ["conform", "witness", "regress", "core", "stop", "prio", "slowop"],
            "nontrivial_rule": "a term lasting at least two successful refreshes with a second instance or a stop in the trace",
            "mc": ["MC_Core2"]},
    "C08": {"families": ["conform", "witness", "slowop", "regress", "core", "faults", "health", "conn", "stop", "prio"],
            "nontrivial_rule": "at least one promotion and one loss of leadership",
            "mc": ["MC_Core2", "MC_Faults", "MC_Abort", "MC_ValCancel"]},
    "C09": {"families": ["conform", "witness", "regress", "stop", "core", "conn"],
            "nontrivial_rule": "a stop call with a store operation of that instance in flight or a leader being stopped",
            "mc": ["MC_Core2", "MC_Abort"]},
    "C10": {"families": ["slowop", "prio", "regress"],
            "nontrivial_rule": "a takeover-enabled instance meets a live record of another instance",
            "mc": ["MC_Prio", "MC_PrioPrompt"]},
    "C11": {"families": ["conn"],
            "nontrivial_rule": "a disconnect notification reaches a leader",
            "mc": ["MC_Conn"]},
    "C12": {"families": ["health"],
            "nontrivial_rule": "at least one unhealthy result on a leader's heartbeat tick",
            "mc": ["MC_Health"]},
    "C13": {"families": ["slowop", "regress", "validate", "faults"],
            "nontrivial_rule": "an outside write or delete of the record happens while instances run",
            "mc": ["MC_Outside", "MC_OutsideVal"]},
    "C18": {"families": ["conform", "witness", "slowop", "regress", "core", "stop", "faults", "prio", "conn"],
            "nontrivial_rule": "snapshots of at least one leader and one non-leader state",
            "mc": ["MC_Core2"]},
    "C19": {"families": ["conform", "witness", "slowop", "regress", "core", "faults", "health", "conn", "stop"],
            "nontrivial_rule": "a promotion whose term ends inside the trace",
            "mc": ["MC_Core2"]},
}


def nontrivial(pid, evs):
    if not any(e.get("ev") == "end" for e in evs) and not any(e.get("ev") in ("panic", "hang") for e in evs):
        return False
    muts = [e for e in evs if e.get("ev") == "op_apply" and e.get("ok") and e.get("kind") in ("create", "update", "delete")]
    if pid == "C01":
        return len({e["i"] for e in muts}) >= 2 or any(e["kind"] == "delete" for e in muts) or any(e.get("src") == "takeover" for e in muts)
    if pid == "C02":
        return count(evs, "start_call") >= 2 and has(evs, "m_isleader", v=1)
    if pid == "C03":
        return (has(evs, "m_hb", status="failure") or has(evs, "expire") or has(evs, "out_put") or has(evs, "out_del")) and has(evs, "m_isleader", v=1)
    if pid == "C04":
        return has(evs, "val_ret")
    if pid == "C05":
        return sum(1 for e in muts if e["kind"] == "create" or e.get("src") == "takeover") >= 2
    if pid == "C06":
        return (has(evs, "expire", tomb=False) or any(e["kind"] == "delete" for e in muts) or has(evs, "out_del")) and count(evs, "start_call") >= 2
    if pid == "C07":
        return count(evs, "m_hb", status="success") >= 2 and (count(evs, "start_call") >= 2 or has(evs, "stop_call"))
    if pid == "C08":
        return has(evs, "promote") and (has(evs, "m_isleader", v=0) and any(e.get("ev") == "m_trans" and e.get("from") == "LEADER" for e in evs))
    if pid == "C09":
        return has(evs, "stop_call") and (has(evs, "hold") or any(e.get("ev") == "m_trans" and e.get("from") == "LEADER" and e.get("to") == "STOPPED" for e in evs))
    if pid == "C10":
        return any(e.get("ev") == "op_issue" and e.get("src") == "takeover" for e in evs)
    if pid == "C11":
        return has(evs, "disc") and has(evs, "m_isleader", v=1)
    if pid == "C12":
        return has(evs, "health", res=False)
    if pid == "C13":
        return has(evs, "out_put") or has(evs, "out_del")
    if pid == "C18":
        return any(e.get("ev") == "snap" and e.get("leader") for e in evs) and any(e.get("ev") == "snap" and not e.get("leader") and e.get("state") in ("FOLLOWER", "STOPPED") for e in evs)
    if pid == "C19":
        return has(evs, "promote") and any(e.get("ev") == "m_trans" and e.get("from") == "LEADER" for e in evs)
    return True


def model_check(pid, tier, tlc, work, spec, log):
    """Exhaustive TLC runs of the model configurations serving the property (design level).
    Cached by the content of the specification, which does not depend on /repo."""
    res = {"distinct": 0, "generated": 0, "cfgs": []}
    def key(cfg):
        # the model depends on MC.tla -> Election.tla -> Props.tla and on its configuration file only
        h = hashlib.sha256()
        for f in ("MC.tla", "Election.tla", "Props.tla", cfg):
            h.update(open(os.path.join(spec, f), "rb").read())
        return h.hexdigest()[:16]
    cfgs = []
    for name in PROPS[pid].get("mc", []):
        found = sorted(glob.glob(os.path.join(spec, "%s_%s*.cfg" % (name, tier))))
        cfgs += [os.path.basename(f) for f in found]
    for cfg in cfgs:
        name = cfg[:-4]
        cache = os.path.join(work, "mc", "%s-%s.json" % (key(cfg), cfg))
        if os.path.exists(cache):
            st = json.load(open(cache))
        else:
            t0 = time.time()
            mod = open(os.path.join(spec, cfg)).readline().strip().lstrip("\\* ").strip()
            module = mod if mod.endswith(".tla") else "MC.tla"
            # time-boxed breadth-first search: a configuration too large for the budget (or a loaded machine) is explored as far as
            # the budget allows and reported as incomplete, never as a failure
            budget = int(os.environ.get("VERIF_MC_BUDGET", "600"))
            out, st = tlc(module, cfg, workers="auto", timeout=budget + 900, heap="-Xmx12g", stop_after=budget)
            st["complete"] = st.get("left_on_queue") == 0
            st["wall_s"] = round(time.time() - t0, 1)
            st["cfg"] = cfg
            if not st.get("ok"):
                st["tail"] = out[-3000:]
            os.makedirs(os.path.dirname(cache), exist_ok=True)
            json.dump(st, open(cache, "w"))
            log("model check %s: %s" % (cfg, {k: v for k, v in st.items() if k != "tail"}))
        if not st.get("ok"):
            from verif import Inconclusive
            raise Inconclusive("TLC did not complete cleanly on %s:\n%s" % (cfg, st.get("tail", "")))
        res["distinct"] += st.get("distinct", 0)
        res["generated"] += st.get("generated", 0)
        res["cfgs"].append({"cfg": cfg, "distinct": st.get("distinct"), "generated": st.get("generated"), "wall_s": st.get("wall_s"),
                            "complete": st.get("complete", True), "depth": st.get("depth")})
    return res



LEVEL_TEXT = ("Model checking with conformance: the property is an operator of Props.tla; TLC checks it exhaustively on the "
              "Election.tla model for small constants (design level), and every schedule of the scenario families is executed on "
              "the real kvElection (gated reference store, virtual time) and its recorded trace is validated step by step against "
              "the same operators by TLC (MonitorTrace.tla). A verdict is only ever taken from what the real code did.")
LEVEL_NOTE = ("trusted: TLC, the Go runtime's synctest bubble, the harness' reference store (its NATS fidelity is itself checked by C14), "
              "the trace being complete (every store operation, metrics callback and user callback passes through the harness); "
              "bounded: scenario families and model constants are finite samples of the quantifier")
import special  # noqa: E402
SPECIAL = special.SPECIAL
SPECIAL_INFO = special.SPECIAL_INFO
NOT_YET = {"C20": "data-race freedom is a property of memory accesses under the Go memory model, which the TLA+ specification does not model; "
                  "no trace of store operations and callbacks can witness or refute it, so the model-based technique does not apply (see DESIGN.md section 9)"}
