#!/usr/bin/env python3
"""Development tool: detection matrix. For every kept seeded change: apply it to /repo, generate the corpus of every scenario
family (quick tier), list per family which properties report violations, undo. Writes seeded/MATRIX.md."""
import sys, os, json, glob, subprocess, collections
sys.path.insert(0, os.path.dirname(os.path.abspath(__file__)))
import verif, gen
ROOT = verif.ROOT
tier = "quick"; seed = int(os.environ.get("VERIF_SEED", "1"))
ids = sys.argv[1:] or sorted(os.path.basename(p) for p in glob.glob(os.path.join(ROOT, "seeded", "C*")))
fams = [f for f in gen.FAMILIES]
rows = {}
for sid in ids:
    d = os.path.join(ROOT, "seeded", sid)
    meta = json.load(open(os.path.join(d, "meta.json")))
    if meta["property"] in ("C14", "C15", "C16", "C17"):
        continue      # decided by the component checks, not by scenario families
    assert subprocess.run(["git", "-C", "/repo", "status", "--short"], capture_output=True, text=True).stdout.strip() == ""
    r = subprocess.run(["git", "-C", "/repo", "apply", os.path.join(d, "patch.diff")], capture_output=True, text=True)
    if r.returncode != 0:
        print(sid, "does not apply"); continue
    try:
        th = verif.tree_hash()
        row = {}
        for fam in fams:
            try:
                cd, m = verif.corpus(th, fam, tier, seed)
            except verif.Inconclusive as ex:
                row[fam] = "inconclusive"; continue
            c = collections.Counter()
            for l in open(os.path.join(cd, "viol.ndjson")):
                if l.strip():
                    v = json.loads(l)
                    if "after_unhealthy" not in v["c"]:
                        c[v["p"]] += 1
            row[fam] = dict(c)
        rows[sid] = (meta["property"], row)
        print(sid, {f: v for f, v in row.items() if v}, flush=True)
    finally:
        subprocess.run(["git", "-C", "/repo", "checkout", "--", "."])
with open(os.path.join(ROOT, "seeded", "MATRIX.md"), "w") as fh:
    fh.write("# Which scenario family exposes which seeded change (quick tier, seed %d)\n\n" % seed)
    fh.write("Cell: properties whose monitor clauses fail on traces of that family with the change applied (the change's own property in **bold**).\n\n")
    fh.write("| seeded change | " + " | ".join(fams) + " |\n|---|" + "---|" * len(fams) + "\n")
    for sid, (prop, row) in rows.items():
        cells = []
        for f in fams:
            v = row.get(f)
            if not v: cells.append("")
            elif isinstance(v, str): cells.append(v)
            else: cells.append(" ".join(("**%s**" % p if p == prop else p) for p in sorted(v)))
        fh.write("| %s | %s |\n" % (sid, " | ".join(cells)))
print("written seeded/MATRIX.md")
