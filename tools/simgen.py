"""Model-based schedules: random behaviours of Election.tla (TLC -simulate, one JVM per behaviour, seeded) exported through a
terminating invariant, converted to strict harness scripts (witness.convert) together with the state the model predicts at the
end of the script (claims, states, record owner/token). The harness replays them on the real code; the monitor judges the
properties as for any trace, and the orchestrator compares the predicted with the observed state (conformance)."""
import json, os, subprocess, shutil, glob, sys
from concurrent.futures import ThreadPoolExecutor
sys.path.insert(0, os.path.dirname(os.path.abspath(__file__)))
import witness

ROOT = os.path.dirname(os.path.dirname(os.path.abspath(__file__)))
SPEC = os.path.join(ROOT, "spec")
JAR = "/opt/veriftools/tla/tla2tools.jar:/opt/veriftools/tla/CommunityModules-deps.jar"
SIM_CFGS = ["MC_Sim.cfg", "MC_SimFaults.cfg", "MC_SimPrio.cfg", "MC_SimOutside.cfg", "MC_SimAbort.cfg", "MC_SimHealth.cfg", "MC_SimConn.cfg", "MC_SimValidate.cfg"]


def one(run, cfg, seed):
    dump = os.path.join(run, "b-%s-%d.json" % (cfg[:-4], seed))
    subprocess.run(["java", "-XX:+UseParallelGC", "-Xmx1g", "-cp", JAR, "tlc2.TLC", "-simulate", "-depth", "600", "-seed", str(seed),
                    "-dumpTrace", "json", dump, "-workers", "1", "-metadir", os.path.join(run, "meta-%s-%d" % (cfg, seed)),
                    "-config", cfg, "MC.tla"], cwd=run, capture_output=True, text=True, timeout=300)
    if not os.path.exists(dump):
        return None
    try:
        sc = witness.convert(dump, os.path.join(run, cfg), "sim-%s-%d" % (cfg[3:-4], seed), "TLC -simulate of %s, seed %d" % (cfg, seed))
        j = json.load(open(dump))["counterexample"]
        last = j["state"][-1][1]
        sc["family"] = "conform"
        sc["expect"] = {"el": {i.upper(): {"leader": e["leader"], "state": e["state"], "life": e["life"]} for i, e in last["el"].items()},
                        "rec": {"kind": last["rec"]["kind"], "id": str(last["rec"]["id"]).upper() if last["rec"]["id"] != "none" else "", "tok": last["rec"]["tok"]},
                        "now_us": last["now"] * witness.UNIT}
        return sc
    except Exception as ex:  # a behaviour the converter cannot project is skipped, never an error of the check
        return None


def generate(n, seed):
    run = os.path.join(ROOT, "work", "simgen", "run-%d-%d" % (os.getpid(), seed))
    os.makedirs(run, exist_ok=True)
    for f in glob.glob(os.path.join(SPEC, "*.tla")) + [os.path.join(SPEC, c) for c in SIM_CFGS if os.path.exists(os.path.join(SPEC, c))]:
        shutil.copy(f, run)
    cfgs = [c for c in SIM_CFGS if os.path.exists(os.path.join(SPEC, c))]
    jobs = [(cfgs[k % len(cfgs)], seed * 100000 + k) for k in range(n)]
    with ThreadPoolExecutor(max_workers=8) as ex:
        res = list(ex.map(lambda j: one(run, j[0], j[1]), jobs))
    shutil.rmtree(run, ignore_errors=True)
    return [r for r in res if r]
