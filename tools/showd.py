#!/usr/bin/env python3
"""show.py variant taking a corpus directory: showd.py <corpus_dir> <scenario> [lo hi]"""
import sys, json
d, name = sys.argv[1], sys.argv[2]
lo = int(sys.argv[3]) if len(sys.argv) > 3 else 0
hi = int(sys.argv[4]) if len(sys.argv) > 4 else 10**9
for l in open(d + '/scn.ndjson'):
    s = json.loads(l)
    if s['name'] == name:
        print(json.dumps(s)[:1500]); break
on = False
skip = {'seq', 't', 'i', 'ev', 'key', 'lost', 'was_live', 'sleader', 'slid', 'stok', 'busy'}
for l in open(d + '/trace.ndjson'):
    e = json.loads(l)
    if e['ev'] == 'scn_begin':
        on = e['name'] == name
    if on and lo <= e.get('seq', 0) <= hi and e['ev'] not in ('reset',):
        if e['ev'] == 'snap':
            print("%4d %9d %s snap L=%s %s lid=%s tok=%s rev=%s np=%s nd=%s g=%s" % (e['seq'], e['t'], e['i'], int(e['leader']), e['state'], e['lid'], e['tok'], e['rev'], e['np'], e['nd'], e['gauge']))
        else:
            print("%4d %9d %s %s %s" % (e.get('seq', 0), e['t'], e['i'], e['ev'], ' '.join('%s=%s' % (k, v) for k, v in e.items() if k not in skip and v not in ('', 0, False, 'none') or k in ('ok', 'v'))))
for l in open(d + '/viol.ndjson'):
    if l.strip():
        v = json.loads(l)
        if v['scn'] == name: print('VIOL', v['p'], v['c'], v['i'], v['seq'])
