#!/usr/bin/env python3
"""Development tool: run every scenario family once and print the violation histogram."""
import sys, os, json, collections
sys.path.insert(0, os.path.dirname(os.path.abspath(__file__)))
import verif, gen
tier = sys.argv[1] if len(sys.argv) > 1 else "quick"
seed = int(sys.argv[2]) if len(sys.argv) > 2 else 1
fams = sys.argv[3].split(",") if len(sys.argv) > 3 else list(gen.FAMILIES)
th = verif.tree_hash()
for fam in fams:
    try:
        d, meta = verif.corpus(th, fam, tier, seed)
    except verif.Inconclusive as ex:
        print("INCONCLUSIVE", fam, str(ex)[:3000]); continue
    c = collections.Counter(); ex = {}
    for l in open(os.path.join(d, "viol.ndjson")):
        if l.strip():
            v = json.loads(l); c[(v["p"], v["c"])] += 1; ex.setdefault((v["p"], v["c"]), (v["scn"], v["seq"]))
    print("== %s: %d scenarios %d events crashes=%s" % (fam, meta["scenarios"], meta["events"], meta["crashes"]))
    for k, n in sorted(c.items()):
        print("   %4d %s %s   e.g. %s" % (n, k[0], k[1], ex[k]))
