#!/usr/bin/env python3
"""Orchestrator of the model-based verification of NATS-Leader-Election.

  verif.py setup                      build/parse everything once (MANIFEST.setup_cmd)
  verif.py check <ID> --tier quick|thorough
  verif.py replay <schedule.json>     re-run one schedule and print the monitor's verdict

Exit codes of check: 0 property held on everything explored (KNOWN-FINDING lines allowed),
1 violation (line "VIOLATION property=<id> replay=<path>"), 2 inconclusive (tool failure).
"""
import argparse, hashlib, json, os, re, shutil, subprocess, sys, time, glob

ROOT = os.path.dirname(os.path.dirname(os.path.abspath(__file__)))
REPO = os.environ.get("VERIF_REPO", "/repo")
WORK = os.path.join(ROOT, "work")
SPEC = os.path.join(ROOT, "spec")
HARN = os.path.join(ROOT, "harness")
sys.path.insert(0, os.path.join(ROOT, "tools"))
import gen  # noqa: E402
import families  # noqa: E402

GOENV = dict(os.environ, GOFLAGS="-mod=mod", GOPROXY="off", GOTOOLCHAIN=os.environ.get("GOTOOLCHAIN", "auto"))
GOENV.pop("GOSUMDB", None)  # GOSUMDB=off breaks the cached toolchain switch


class Inconclusive(Exception):
    pass


def log(*a):
    print("[verif]", *a, file=sys.stderr, flush=True)


def tree_hash():
    h = hashlib.sha256()
    for d, dirs, files in os.walk(REPO):
        dirs[:] = sorted(x for x in dirs if x != ".git")
        for f in sorted(files):
            p = os.path.join(d, f)
            if not (f.endswith(".go") or f in ("go.mod", "go.sum")):
                continue
            h.update(os.path.relpath(p, REPO).encode())
            with open(p, "rb") as fh:
                h.update(fh.read())
    # the harness and the specification are part of what a corpus depends on
    for base in (HARN, SPEC, os.path.join(ROOT, "tools")):
        for p in sorted(glob.glob(os.path.join(base, "*"))):
            if os.path.isfile(p) and not p.endswith(".test"):
                h.update(os.path.relpath(p, ROOT).encode())
                with open(p, "rb") as fh:
                    h.update(fh.read())
    return h.hexdigest()[:16]


import contextlib, fcntl


@contextlib.contextmanager
def locked(path):
    """serialises the processes that would produce the same cached artefact (checks may run side by side)"""
    os.makedirs(os.path.dirname(path), exist_ok=True)
    with open(path + ".lock", "w") as fh:
        fcntl.flock(fh, fcntl.LOCK_EX)
        try:
            yield
        finally:
            fcntl.flock(fh, fcntl.LOCK_UN)


def prune(pattern, keep, min_age_s=2 * 3600):
    """removes cached artefacts of other trees: only ones that have not been touched for a while (another check may be using them)"""
    def mtime(p):
        try:
            return os.path.getmtime(p)
        except OSError:           # removed by a check running side by side
            return 0.0
    olds = sorted((p for p in glob.glob(pattern) if not p.endswith(".lock")), key=mtime)
    now = time.time()
    for old in olds[:-keep] if keep else olds:
        if 0.0 < mtime(old) < now - min_age_s:
            shutil.rmtree(old, ignore_errors=True)
            try:
                os.remove(old + ".lock")
            except OSError:
                pass


def build_harness(th, race=False):
    with locked(os.path.join(WORK, "bin", th)):
        return _build_harness(th, race)


def _build_harness(th, race=False):
    out = os.path.join(WORK, "bin", th, "harness-race.test" if race else "harness.test")
    if os.path.exists(out):
        return out
    os.makedirs(os.path.dirname(out), exist_ok=True)
    # keep only the newest few builds
    prune(os.path.join(WORK, "bin", "*"), keep=6)
    cmd = ["go", "test", "-tags", "verif", "-c", "-o", out]
    if REPO == "/repo":
        shutil.copy(os.path.join(REPO, "go.sum"), os.path.join(HARN, "go.sum"))
    else:
        # development aid (VERIF_REPO=<scratch worktree>): the registered checks always build against /repo
        alt = os.path.join(WORK, "bin", th, "alt.mod")
        open(alt, "w").write(open(os.path.join(HARN, "go.mod")).read().replace("=> /repo", "=> " + REPO))
        shutil.copy(os.path.join(REPO, "go.sum"), alt[:-4] + ".sum")
        cmd.insert(2, "-modfile=" + alt)
    if race:
        cmd.insert(2, "-race")
    cmd.append(".")
    r = subprocess.run(cmd, cwd=HARN, env=GOENV, capture_output=True, text=True)
    if r.returncode != 0:
        raise Inconclusive("harness build failed:\n" + r.stdout + r.stderr)
    return out


PANIC_RE = re.compile(r"^(panic:|fatal error:)", re.M)


def run_scenarios(binary, scn_path, out_path, nscn, timeout=900):
    """Runs the scenario file, restarting after a crash/hang/leak of one scenario."""
    if os.path.exists(out_path):
        os.remove(out_path)
    frm = 0
    crashes = []
    t0 = time.time()
    while frm < nscn:
        env = dict(os.environ, VERIF_SCN=scn_path, VERIF_OUT=out_path, VERIF_FROM=str(frm),
                   GOMAXPROCS=os.environ.get("VERIF_GOMAXPROCS", "1"))
        try:
            r = subprocess.run([binary, "-test.run", "^TestScenarios$", "-test.timeout", "0"], env=env,
                               capture_output=True, text=True, timeout=max(60, timeout - (time.time() - t0)))
        except subprocess.TimeoutExpired:
            raise Inconclusive("scenario run timed out")
        if r.returncode == 0:
            break
        # find the scenario that was running
        last = None
        with open(out_path) as fh:
            for line in fh:
                if '"scn_begin"' in line:
                    last = json.loads(line)["idx"]
        if last is None:
            raise Inconclusive("harness died before the first scenario:\n" + r.stderr[-2000:])
        err = r.stderr
        if r.returncode == 3:
            kind = "hang"
        elif r.returncode == 5:
            kind = "leak"
        elif PANIC_RE.search(err) or "panic: " in err:
            kind = "panic"
            frames = [l.strip() for l in err.splitlines() if "NATS-Leader-Election/leader." in l and not l.startswith("\t")]
            m = PANIC_RE.search(err)
            head = err[m.start():].splitlines()[0] if m else "panic"
            with open(out_path, "a") as fh:
                fh.write(json.dumps({"seq": 0, "t": -1, "i": "env", "ev": "panic", "idx": last,
                                     "what": head[:200], "frames": frames[:6]}) + "\n")
        else:
            raise Inconclusive("harness exit %d:\n%s" % (r.returncode, err[-3000:]))
        crashes.append((last, kind))
        frm = last + 1
    return crashes


_runseq = 0


def tlc(module, cfg, env=None, workers="1", timeout=900, extra=(), depthfirst=False, heap=None, stop_after=0):
    """Runs TLC in a scratch copy of the spec directory; returns (stdout, stats)."""
    global _runseq
    _runseq += 1
    run = os.path.join(WORK, "tlc", "run-%d-%d-%d" % (os.getpid(), int(time.time() * 1000) % 100000000, _runseq))
    os.makedirs(run, exist_ok=True)
    for f in glob.glob(os.path.join(SPEC, "*.tla")) + glob.glob(os.path.join(SPEC, "*.cfg")):
        shutil.copy(f, run)
    e = dict(os.environ)
    if env:
        e.update(env)
    if depthfirst:
        e["JAVA_TOOL_OPTIONS"] = (e.get("JAVA_TOOL_OPTIONS", "") + " -Dtlc2.tool.queue.IStateQueue=StateDeque").strip()
    jar = "/opt/veriftools/tla/tla2tools.jar:/opt/veriftools/tla/CommunityModules-deps.jar"
    # stop_after: TLC ends the breadth-first search gracefully after that many seconds and reports what it has explored
    cmd = ["java", "-XX:+UseParallelGC"] + ([heap] if heap else []) + (["-Dtlc2.TLC.stopAfter=%d" % stop_after] if stop_after else []) + ["-cp", jar, "tlc2.TLC", "-workers", str(workers),
           "-metadir", os.path.join(run, "meta"), "-config", cfg] + list(extra) + [module]
    try:
        r = subprocess.run(cmd, cwd=run, env=e, capture_output=True, text=True, timeout=timeout)
    except subprocess.TimeoutExpired:
        shutil.rmtree(run, ignore_errors=True)
        raise Inconclusive("TLC timed out on %s/%s" % (module, cfg))
    out = r.stdout + r.stderr
    stats = {}
    m = re.search(r"(\d+) states generated, (\d+) distinct states found", out)
    if m:
        stats["generated"], stats["distinct"] = int(m.group(1)), int(m.group(2))
    m = re.search(r"depth of the complete state graph search is (\d+)", out)
    if m:
        stats["depth"] = int(m.group(1))
    m = re.search(r"\d+ states generated, \d+ distinct states found, (\d+) states left on queue", out)   # the final summary line
    if m:
        stats["left_on_queue"] = int(m.group(1))
    stats["ok"] = "Model checking completed. No error has been found." in out
    stats["rc"] = r.returncode
    shutil.rmtree(run, ignore_errors=True)
    return out, stats


def monitor_one(trace_path, out_path):
    if os.path.exists(out_path):
        os.remove(out_path)
    out, st = tlc("MonitorTrace.tla", "MonitorTrace.cfg", env={"TRACE": trace_path, "OUT": out_path}, timeout=1800, heap="-Xmx3g")
    if not st.get("ok") or not os.path.exists(out_path):
        raise Inconclusive("monitor failed on %s:\n%s" % (trace_path, out[-4000:]))
    viol = []
    with open(out_path) as fh:
        for line in fh:
            line = line.strip()
            if line:
                viol.append(json.loads(line))
    return viol, st


def monitor(trace_path, out_path, par=8, chunk_events=6000):
    """Judges a trace file with MonitorTrace.tla; large files are split at scenario boundaries and
    judged by several TLC processes in parallel (the monitor state is reset at every scenario)."""
    chunks, cur, n = [], [], 0
    with open(trace_path) as fh:
        for line in fh:
            if '"ev":"scn_begin"' in line and n >= chunk_events:
                chunks.append(cur)
                cur, n = [], 0
            cur.append(line)
            n += 1
    if cur:
        chunks.append(cur)
    if len(chunks) <= 1:
        return monitor_one(trace_path, out_path)
    from concurrent.futures import ThreadPoolExecutor
    paths = []
    for k, c in enumerate(chunks):
        cp = "%s.part%d" % (trace_path, k)
        open(cp, "w").writelines(c)
        paths.append(cp)
    with ThreadPoolExecutor(max_workers=par) as ex:
        res = list(ex.map(lambda cp: monitor_one(cp, cp + ".viol"), paths))
    viol, st = [], {"distinct": 0, "generated": 0, "ok": True}
    for (v, s1), cp in zip(res, paths):
        viol += v
        st["distinct"] += s1.get("distinct", 0)
        st["generated"] += s1.get("generated", 0)
        os.remove(cp)
        os.remove(cp + ".viol")
    with open(out_path, "w") as fh:
        for v in viol:
            fh.write(json.dumps(v) + "\n")
    return viol, st


# ---------------------------------------------------------------------------------------------
def load_known():
    known = []
    p = os.path.join(ROOT, "known_findings.txt")
    if os.path.exists(p):
        for line in open(p):
            line = line.strip()
            m = re.match(r"open:\s+property=(C\d+)\s+clause=(\S+)\s*(.*)", line)
            if m:
                known.append({"p": m.group(1), "clause": m.group(2), "text": m.group(3)})
    return known


def corpus(th, family, tier, seed):
    """Generates (or reuses) the scenarios, traces and monitor verdicts of one family."""
    d = os.path.join(WORK, "corpus", th, "%s-%s-%d" % (family, tier, seed))
    with locked(d):
        return _corpus(th, family, tier, seed, d)


def _corpus(th, family, tier, seed, d):
    meta_p = os.path.join(d, "meta.json")
    if os.path.exists(meta_p):
        os.utime(os.path.join(WORK, "corpus", th))
        return d, json.load(open(meta_p))
    os.makedirs(d, exist_ok=True)
    # drop corpora of other trees (old ones only: checks of other trees may be running side by side)
    prune(os.path.join(WORK, "corpus", "*"), keep=3)
    t0 = time.time()
    scns = gen.generate(family, tier, seed)
    scn_p = os.path.join(d, "scn.ndjson")
    with open(scn_p, "w") as fh:
        for s in scns:
            fh.write(json.dumps(s, separators=(",", ":")) + "\n")
    binary = build_harness(th)
    trace_p = os.path.join(d, "trace.ndjson")
    crashes = run_scenarios(binary, scn_p, trace_p, len(scns))
    t1 = time.time()
    viol, st = monitor(trace_p, os.path.join(d, "viol.ndjson"))
    meta = {"family": family, "tier": tier, "seed": seed, "scenarios": len(scns), "crashes": crashes,
            "events": st.get("distinct", 0), "gen_run_s": round(t1 - t0, 2), "monitor_s": round(time.time() - t1, 2),
            "violations": len(viol)}
    json.dump(meta, open(meta_p, "w"))
    log("corpus %s: %d scenarios, %d events, %d violation records, %.1fs run + %.1fs monitor" %
        (os.path.basename(d), len(scns), meta["events"], len(viol), meta["gen_run_s"], meta["monitor_s"]))
    return d, meta


def split_traces(trace_p):
    """name -> list of events"""
    cur, res = None, {}
    with open(trace_p) as fh:
        for line in fh:
            e = json.loads(line)
            if e["ev"] == "scn_begin":
                cur = []
                res[e["name"]] = cur
            if cur is not None:
                cur.append(e)
    return res


def conformance(scn_by_name, traces):
    """Model behaviours replayed on the real code (family conform / witness): how many were followed to the end of the script and
    whether the state predicted by the model agrees with the observed one there."""
    st = {"model_behaviours_replayed": 0, "followed_to_end": 0, "final_state_agrees": 0, "script_steps": 0,
          "quiescent_points_compared": 0, "quiescent_points_agreeing": 0, "disagreements": []}
    for name, evs in traces.items():
        sc = scn_by_name.get(name)
        if not sc or not sc.get("script"):
            continue
        st["model_behaviours_replayed"] += 1
        st["script_steps"] += len(sc["script"])
        # state comparison at every point where the model lets time pass (it is quiescent there), up to the first divergence
        snaps = {}
        for e in evs:
            if e.get("ev") == "snap":
                snaps[e["i"]] = e
            elif e.get("ev") in ("script_miss", "script_end"):
                break
            elif e.get("ev") == "script_at":
                good = True
                for i, x in (e.get("exp") or {}).items():
                    sn = snaps.get(i)
                    if x["life"] == "stopping" or sn is None:
                        continue
                    if bool(sn["leader"]) != bool(x["leader"]) or sn["state"] != x["state"]:
                        good = False
                        st["disagreements"].append({"scenario": name, "step": e.get("step"), "instance": i, "model": x,
                                                    "real": {"leader": sn["leader"], "state": sn["state"]}})
                st["quiescent_points_compared"] += 1
                st["quiescent_points_agreeing"] += good
        end = next((e for e in evs if e.get("ev") == "script_end"), None)
        if not end or end.get("aborted"):
            continue
        st["followed_to_end"] += 1
        exp = sc.get("expect")
        if not exp:
            continue
        k = evs.index(end)
        snaps = {}
        for e in evs[:k]:
            if e.get("ev") == "snap":
                snaps[e["i"]] = e
        ok = True
        for i, x in exp["el"].items():
            sn = snaps.get(i)
            if sn is None or bool(sn["leader"]) != bool(x["leader"]) or (x["life"] in ("running", "stopped", "halted") and sn["state"] != x["state"]):
                ok = False
                st["disagreements"].append({"scenario": name, "instance": i, "model": x, "real": sn and {"leader": sn["leader"], "state": sn["state"]}})
        if (exp["rec"]["kind"] == "val") != (end.get("rec_kind") == "val") or (exp["rec"]["kind"] == "val" and exp["rec"]["id"] != end.get("id")):
            ok = False
            st["disagreements"].append({"scenario": name, "model_rec": exp["rec"], "real_rec": {"kind": end.get("rec_kind"), "id": end.get("id")}})
        st["final_state_agrees"] += ok
    st["disagreements"] = st["disagreements"][:5]
    return st


def check_behavioural(pid, tier, seed):
    t0 = time.time()
    th = tree_hash()
    spec = families.PROPS[pid]
    fams = spec["families"]
    known = load_known()
    total_scn = total_ev = 0
    nontrivial = set()
    samples = []
    violations = []
    crashes = []
    conf = {}
    for fam in fams:
        d, meta = corpus(th, fam, tier, seed)
        total_scn += meta["scenarios"]
        total_ev += meta["events"]
        crashes += meta["crashes"]
        scn_by_name = {}
        for line in open(os.path.join(d, "scn.ndjson")):
            s = json.loads(line)
            scn_by_name[s["name"]] = s
        traces = split_traces(os.path.join(d, "trace.ndjson"))
        if fam in ("conform", "witness"):
            c = conformance(scn_by_name, traces)
            for k2, v2 in c.items():
                conf[k2] = (conf.get(k2, 0) + v2) if isinstance(v2, int) else (conf.get(k2, []) + v2)[:5]
        for name, evs in traces.items():
            if families.nontrivial(pid, evs):
                hsh = hashlib.sha1(json.dumps([(e.get("ev"), e.get("i"), e.get("kind"), e.get("ok")) for e in evs]).encode()).hexdigest()
                nontrivial.add(hsh)
                if len(samples) < 2:
                    samples.append({"scenario": scn_by_name.get(name), "trace_head": [e for e in evs if e["ev"] not in ("snap",)][:12],
                                    "events": len(evs)})
        for line in open(os.path.join(d, "viol.ndjson")):
            line = line.strip()
            if not line:
                continue
            v = json.loads(line)
            if v["p"] != pid:
                continue
            v["family"] = fam
            v["scenario"] = scn_by_name.get(v["scn"])
            violations.append(v)
    # model checking of the design (spec-level), cached by spec content
    mc = families.model_check(pid, tier, tlc, WORK, SPEC, log)
    # verdict
    new, kn = [], {}
    for v in violations:
        k = next((k for k in known if k["p"] == pid and v["c"].startswith(k["clause"])), None)
        if k:
            kn.setdefault(k["clause"], (k, v))
        else:
            new.append(v)
    for clause, (k, v) in sorted(kn.items()):
        print("KNOWN-FINDING: property=%s %s %s (e.g. scenario %s, event %s)" % (pid, clause, k["text"], v["scn"], v["seq"]))
    rc = 0
    replay = None
    if new:
        os.makedirs(os.path.join(WORK, "violations"), exist_ok=True)
        seen = set()
        for v in new:
            key = (v["c"], v["scn"])
            if key in seen:
                continue
            seen.add(key)
            p = os.path.join(WORK, "violations", "%s-%s.json" % (pid, re.sub(r"[^A-Za-z0-9_.-]", "_", v["scn"])[:80]))
            json.dump({"property": pid, "clause": v["c"], "instance": v["i"], "event_seq": v["seq"], "t_us": v["t"],
                       "scenario": v["scenario"]}, open(p, "w"), indent=1)
            if replay is None:
                replay = p
            if len(seen) <= 5:
                print("violated clause %s: %s instance=%s scenario=%s event=%s" % (pid, v["c"], v["i"], v["scn"], v["seq"]))
        print("VIOLATION property=%s replay=%s" % (pid, replay))
        rc = 1
    ev = {
        "property_id": pid, "tier": tier, "seed": seed, "level": "model_checking",
        "coverage": {
            "states": max(1, mc.get("distinct", 0) + total_ev),
            "transitions": max(1, mc.get("generated", 0) + total_ev),
            "traces_validated_against_impl": total_scn,
            "samples": samples or [{"note": "no non-trivial trace in this run"}],
            "evaluations": total_scn,
            "distinct_nontrivial": len(nontrivial),
            "rule": "one evaluation = one schedule executed on the real kvElection under testing/synctest and judged by "
                    "MonitorTrace.tla; non-trivial = " + spec["nontrivial_rule"] + "; distinct by the sequence of (event, instance, kind, ok)",
            "model_states_distinct": mc.get("distinct", 0), "model_states_generated": mc.get("generated", 0),
            "model_cfgs": mc.get("cfgs", []), "monitor_events_checked": total_ev,
            "families": fams, "harness_crashes": crashes, "conformance_replay_of_model_behaviours": conf, "known_findings_hit": sorted(kn.keys()),
            "exhaustive": False,
        },
        "assumptions": spec.get("assumptions", []) + [
            "reference store follows NATS JetStream KV semantics (checked against the embedded server by C14)",
            "same-instant interleavings inside one virtual instant are sampled by the Go scheduler (GOMAXPROCS=1), not enumerated",
        ],
        "wall_s": round(time.time() - t0, 2), "violations": len(new),
    }
    os.makedirs(os.path.join(ROOT, "evidence"), exist_ok=True)
    if not os.environ.get("VERIF_NO_EVIDENCE"):      # (development runs against a scratch worktree leave the evidence alone)
        json.dump(ev, open(os.path.join(ROOT, "evidence", pid + ".json"), "w"), indent=1)
    return rc


def main():
    ap = argparse.ArgumentParser()
    sub = ap.add_subparsers(dest="cmd", required=True)
    c = sub.add_parser("check")
    c.add_argument("pid")
    c.add_argument("--tier", default=os.environ.get("VERIF_TIER", "quick"))
    sub.add_parser("setup")
    r = sub.add_parser("replay")
    r.add_argument("path")
    a = ap.parse_args()
    seed = int(os.environ.get("VERIF_SEED", "1") or 1)
    os.makedirs(WORK, exist_ok=True)
    try:
        if a.cmd == "setup":
            th = tree_hash()
            build_harness(th)
            for m in sorted(glob.glob(os.path.join(SPEC, "*.tla"))):
                r = subprocess.run(["tla-sany", os.path.basename(m)], cwd=SPEC, capture_output=True, text=True)
                if "Semantic errors" in r.stdout or "Parse Error" in r.stdout or r.returncode != 0 and "error" in r.stdout.lower():
                    raise Inconclusive("SANY: " + m + "\n" + r.stdout[-2000:])
            print("setup ok")
            return 0
        if a.cmd == "check":
            if a.pid in families.PROPS:
                return check_behavioural(a.pid, a.tier, seed)
            if a.pid in families.SPECIAL:
                return families.SPECIAL[a.pid](a.tier, seed, sys.modules[__name__])
            print("unknown property", a.pid)
            return 2
        if a.cmd == "replay":
            th = tree_hash()
            j = json.load(open(a.path))
            scn = j.get("scenario", j)
            d = os.path.join(WORK, "replay")
            os.makedirs(d, exist_ok=True)
            sp = os.path.join(d, "scn.ndjson")
            open(sp, "w").write(json.dumps(scn) + "\n")
            binary = build_harness(th)
            tries = int(os.environ.get("VERIF_REPLAY_TRIES", "5"))
            hit = 0
            for k in range(tries):
                run_scenarios(binary, sp, os.path.join(d, "trace.ndjson"), 1)
                viol, _ = monitor(os.path.join(d, "trace.ndjson"), os.path.join(d, "viol.ndjson"))
                want = [v for v in viol if v["p"] == j.get("property", v["p"])]
                for v in want[:5]:
                    print("run %d: %s %s instance=%s event=%s t=%s" % (k + 1, v["p"], v["c"], v["i"], v["seq"], v["t"]))
                hit += bool(want)
            print("reproduced in %d of %d runs; trace: %s" % (hit, tries, os.path.join(d, "trace.ndjson")))
            return 1 if hit else 0
    except Inconclusive as ex:
        print("INCONCLUSIVE:", ex)
        return 2


if __name__ == "__main__":
    sys.exit(main())
