"""Checks whose specification is a transcription of a pure / sequential component (C15, C16, C17),
the store contract (C14) and the race-detector exploration (C20)."""
import json, os, shutil, subprocess, time, glob, hashlib

ROOT = os.path.dirname(os.path.dirname(os.path.abspath(__file__)))


def write_evidence(pid, ev):
    os.makedirs(os.path.join(ROOT, "evidence"), exist_ok=True)
    json.dump(ev, open(os.path.join(ROOT, "evidence", pid + ".json"), "w"), indent=1)


def run_go_test(V, binary, test, env, timeout=1800):
    e = dict(os.environ)
    e.update(env)
    r = subprocess.run([binary, "-test.run", "^%s$" % test, "-test.timeout", "0"], env=e, capture_output=True, text=True, timeout=timeout)
    if r.returncode != 0:
        raise V.Inconclusive("%s failed (exit %d):\n%s" % (test, r.returncode, (r.stdout + r.stderr)[-3000:]))
    return r.stdout


def tlc_io(V, module, cfg, env, timeout=1800, heap="-Xmx8g"):
    out, st = V.tlc(module, cfg, env=env, timeout=timeout, heap=heap)
    if not st.get("ok"):
        raise V.Inconclusive("TLC failed on %s:\n%s" % (module, out[-3000:]))
    return out, st


def finish(V, pid, tier, seed, t0, bad, replay_obj, coverage, assumptions, level="model_checking"):
    """Common tail: known findings, VIOLATION line, evidence."""
    known = [k for k in V.load_known() if k["p"] == pid]
    new, kn = [], {}
    # a difference between the real outcome and the spec's transcription of the code is a divergence of
    # the model, reported in the evidence; only the property operators decide the verdict
    diverged = [b for b in bad if any(c.startswith("CONFORMANCE_") for c in b["clauses"])]
    coverage["model_divergences"] = len(diverged)
    for b in bad:
        b["clauses"] = [c for c in b["clauses"] if not c.startswith("CONFORMANCE_")]
    bad = [b for b in bad if b["clauses"]]
    for b in bad:
        k = next((k for k in known if any(c.startswith(k["clause"]) for c in b["clauses"])), None)
        if k:
            kn.setdefault(k["clause"], (k, b))
        else:
            new.append(b)
    for clause, (k, b) in sorted(kn.items()):
        print("KNOWN-FINDING: property=%s %s %s" % (pid, clause, k["text"]))
    rc = 0
    if new:
        d = os.path.join(V.WORK, "violations")
        os.makedirs(d, exist_ok=True)
        p = os.path.join(d, "%s-case.json" % pid)
        json.dump({"property": pid, "cases": new[:20], "replay": replay_obj}, open(p, "w"), indent=1)
        for b in new[:5]:
            print("violated clause %s: %s case=%s" % (pid, ",".join(b["clauses"]), json.dumps(b.get("r", b))[:300]))
        print("VIOLATION property=%s replay=%s" % (pid, p))
        rc = 1
    coverage["known_findings_hit"] = sorted(kn.keys())
    write_evidence(pid, {"property_id": pid, "tier": tier, "seed": seed, "level": level, "coverage": coverage,
                         "assumptions": assumptions, "wall_s": round(time.time() - t0, 2), "violations": len(new)})
    return rc


# --------------------------------------------------------------------------------------------
def check_c16(tier, seed, V):
    t0 = time.time()
    th = V.tree_hash()
    binary = V.build_harness(th)
    d = os.path.join(V.WORK, "pure", "c16-%s-%s-%d" % (th, tier, seed))
    os.makedirs(d, exist_ok=True)
    cfgs = os.path.join(d, "cfgs.ndjson")
    out, st = tlc_io(V, "ConfigValidGen.tla", "ConfigValid.cfg", {"OUT": cfgs})
    ncfg = sum(1 for _ in open(cfgs))
    YEAR12 = 365 * 24 * 3600 * 10**9 // 12
    bases = [13, 1000, 10**6, 10**9, 3600 * 10**9, YEAR12]
    res = os.path.join(d, "results.ndjson")
    env = {"VERIF_IN": cfgs, "VERIF_OUT": res, "VERIF_BASES": ",".join(map(str, bases)),
           "VERIF_EVERY": "6" if tier == "quick" else "1", "VERIF_OFFSET": str(seed)}
    run_go_test(V, binary, "TestConfigs", env)
    nres = sum(1 for _ in open(res))
    bad_p = os.path.join(d, "bad.ndjson")
    out2, st2 = tlc_io(V, "ConfigValidCheck.tla", "ConfigValid.cfg", {"IN": res, "OUT": bad_p})
    bad = [json.loads(l) for l in open(bad_p) if l.strip()]
    rows = [json.loads(l) for l in open(res)][:3]
    distinct = len({(l) for l in open(res)})
    cov = {"states": ncfg, "transitions": nres, "traces_validated_against_impl": nres,
           "samples": rows, "evaluations": nres, "distinct_nontrivial": distinct,
           "rule": "TLC enumerates the lattice of ConfigValid.tla (every rule boundary and its +/-1 ns neighbours, strings empty/non-empty, "
                   "integers around 0) and checks the transcription of validation.go against Documented/Offending; every configuration is "
                   "instantiated for bases %s ns (%s) and passed to the real NewElection; a second TLC pass judges each real outcome with the "
                   "property operators; all cases are boundary cases, distinct by construction" % (bases, "one of six per config in quick" if tier == "quick" else "all"),
           "lattice_configs": ncfg, "bases_ns": [str(b) for b in bases], "exhaustive": tier != "quick"}
    shutil.rmtree(d, ignore_errors=True)
    return finish(V, "C16", tier, seed, t0, bad, {"how": "python3 tools/verif.py check C16"}, cov,
                  ["durations above one year and int64 overflow of 3 x HeartbeatInterval are outside the lattice",
                   "Documented/Offending are the reading of the statement given in DESIGN.md appendix F"])


SPECIAL = {"C16": check_c16}
SPECIAL_INFO = {
    "C16": {"engine": "tlc-enumeration+go", "level": "model_checking",
            "level_text": "ConfigValid.tla states the documented accept condition and the offending-field relation over symbolic durations; TLC "
                          "enumerates the boundary lattice (exhaustive for the lattice), proves the transcription of validation.go equivalent on it, "
                          "and judges the outcome of the real NewElection for every lattice point at six magnitudes.",
            "level_note": "trusted: TLC, the instantiation m*B+o of symbolic durations; the lattice is finite (boundaries and neighbours), not all of int64",
            "technique": "TLA+ transcription of the component; TLC-enumerated cases executed on the real function and judged by TLA+ operators"},
}
