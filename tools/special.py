"""Checks whose specification is a transcription of a pure / sequential component (C15, C16, C17),
the store contract (C14) and the race-detector exploration (C20)."""
import json, os, shutil, subprocess, time, glob, hashlib

ROOT = os.path.dirname(os.path.dirname(os.path.abspath(__file__)))


def write_evidence(pid, ev):
    os.makedirs(os.path.join(ROOT, "evidence"), exist_ok=True)
    if not os.environ.get("VERIF_NO_EVIDENCE"):      # (development runs against a scratch worktree leave the evidence alone)
        json.dump(ev, open(os.path.join(ROOT, "evidence", pid + ".json"), "w"), indent=1)


def run_go_test(V, binary, test, env, timeout=1800):
    e = dict(os.environ)
    e.update(env)
    r = subprocess.run([binary, "-test.run", "^%s$" % test, "-test.timeout", "0"], env=e, capture_output=True, text=True, timeout=timeout)
    if r.returncode != 0:
        raise V.Inconclusive("%s failed (exit %d):\n%s" % (test, r.returncode, (r.stdout + r.stderr)[-3000:]))
    return r.stdout


def tlc_io(V, module, cfg, env, timeout=1800, heap="-Xmx8g"):
    out, st = V.tlc(module, cfg, env=env, timeout=timeout, heap=heap)
    if not st.get("ok"):
        raise V.Inconclusive("TLC failed on %s:\n%s" % (module, out[-3000:]))
    return out, st


def finish(V, pid, tier, seed, t0, bad, replay_obj, coverage, assumptions, level="model_checking"):
    """Common tail: known findings, VIOLATION line, evidence."""
    known = [k for k in V.load_known() if k["p"] == pid]
    new, kn = [], {}
    # a difference between the real outcome and the spec's transcription of the code is a divergence of
    # the model, reported in the evidence; only the property operators decide the verdict
    diverged = [b for b in bad if any(c.startswith("CONFORMANCE_") for c in b["clauses"])]
    coverage["model_divergences"] = len(diverged)
    for b in bad:
        b["clauses"] = [c for c in b["clauses"] if not c.startswith("CONFORMANCE_")]
    bad = [b for b in bad if b["clauses"]]
    for b in bad:
        k = next((k for k in known if any(c.startswith(k["clause"]) for c in b["clauses"])), None)
        if k:
            kn.setdefault(k["clause"], (k, b))
        else:
            new.append(b)
    for clause, (k, b) in sorted(kn.items()):
        print("KNOWN-FINDING: property=%s %s %s" % (pid, clause, k["text"]))
    rc = 0
    if new:
        d = os.path.join(V.WORK, "violations")
        os.makedirs(d, exist_ok=True)
        p = os.path.join(d, "%s-case.json" % pid)
        json.dump({"property": pid, "cases": new[:20], "replay": replay_obj}, open(p, "w"), indent=1)
        for b in new[:5]:
            print("violated clause %s: %s case=%s" % (pid, ",".join(b["clauses"]), json.dumps(b.get("r", b))[:300]))
        print("VIOLATION property=%s replay=%s" % (pid, p))
        rc = 1
    coverage["known_findings_hit"] = sorted(kn.keys())
    write_evidence(pid, {"property_id": pid, "tier": tier, "seed": seed, "level": level, "coverage": coverage,
                         "assumptions": assumptions, "wall_s": round(time.time() - t0, 2), "violations": len(new)})
    return rc


# --------------------------------------------------------------------------------------------
def check_c16(tier, seed, V):
    t0 = time.time()
    th = V.tree_hash()
    binary = V.build_harness(th)
    d = os.path.join(V.WORK, "pure", "c16-%s-%s-%d" % (th, tier, seed))
    os.makedirs(d, exist_ok=True)
    cfgs = os.path.join(d, "cfgs.ndjson")
    out, st = tlc_io(V, "ConfigValidGen.tla", "ConfigValid.cfg", {"OUT": cfgs})
    ncfg = sum(1 for _ in open(cfgs))
    YEAR12 = 365 * 24 * 3600 * 10**9 // 12
    bases = [13, 1000, 10**6, 10**9, 3600 * 10**9, YEAR12]
    res = os.path.join(d, "results.ndjson")
    env = {"VERIF_IN": cfgs, "VERIF_OUT": res, "VERIF_BASES": ",".join(map(str, bases)),
           "VERIF_EVERY": "6" if tier == "quick" else "1", "VERIF_OFFSET": str(seed)}
    run_go_test(V, binary, "TestConfigs", env)
    nres = sum(1 for _ in open(res))
    bad_p = os.path.join(d, "bad.ndjson")
    out2, st2 = tlc_io(V, "ConfigValidCheck.tla", "ConfigValid.cfg", {"IN": res, "OUT": bad_p})
    bad = [json.loads(l) for l in open(bad_p) if l.strip()]
    rows = [json.loads(l) for l in open(res)][:3]
    distinct = len({(l) for l in open(res)})
    cov = {"states": ncfg, "transitions": nres, "traces_validated_against_impl": nres,
           "samples": rows, "evaluations": nres, "distinct_nontrivial": distinct,
           "rule": "TLC enumerates the lattice of ConfigValid.tla (every rule boundary and its +/-1 ns neighbours, strings empty/non-empty, "
                   "integers around 0) and checks the transcription of validation.go against Documented/Offending; every configuration is "
                   "instantiated for bases %s ns (%s) and passed to the real NewElection; a second TLC pass judges each real outcome with the "
                   "property operators; all cases are boundary cases, distinct by construction" % (bases, "one of six per config in quick" if tier == "quick" else "all"),
           "lattice_configs": ncfg, "bases_ns": [str(b) for b in bases], "exhaustive": tier != "quick"}
    shutil.rmtree(d, ignore_errors=True)
    return finish(V, "C16", tier, seed, t0, bad, {"how": "python3 tools/verif.py check C16"}, cov,
                  ["durations above one year and int64 overflow of 3 x HeartbeatInterval are outside the lattice",
                   "Documented/Offending are the reading of the statement given in DESIGN.md appendix F"])


SPECIAL = {"C16": check_c16}
SPECIAL_INFO_PLACEHOLDER = 1
SPECIAL_INFO = {
    "C16": {"engine": "tlc-enumeration+go", "level": "model_checking",
            "level_text": "ConfigValid.tla states the documented accept condition and the offending-field relation over symbolic durations; TLC "
                          "enumerates the boundary lattice (exhaustive for the lattice), proves the transcription of validation.go equivalent on it, "
                          "and judges the outcome of the real NewElection for every lattice point at six magnitudes.",
            "level_note": "trusted: TLC, the instantiation m*B+o of symbolic durations; the lattice is finite (boundaries and neighbours), not all of int64",
            "technique": "TLA+ transcription of the component; TLC-enumerated cases executed on the real function and judged by TLA+ operators"},
}

# --------------------------------------------------------------------------------------------
def check_c15(tier, seed, V):
    t0 = time.time()
    th = V.tree_hash()
    binary = V.build_harness(th)
    d = os.path.join(V.WORK, "pure", "c15-%s-%s-%d" % (th, tier, seed))
    os.makedirs(d, exist_ok=True)
    cfg = "ErrClass.cfg" if tier == "quick" else "ErrClass_thorough.cfg"
    terms = os.path.join(d, "terms.ndjson")
    out, st = tlc_io(V, "ErrClassGen.tla", cfg, {"OUT": terms})
    nterms = sum(1 for _ in open(terms))
    res = os.path.join(d, "results.ndjson")
    run_go_test(V, binary, "TestErrClass", {"VERIF_IN": terms, "VERIF_OUT": res, "VERIF_SEED": str(seed),
                                            "VERIF_NRANDOM": "2000" if tier == "quick" else "50000"})
    rows = [json.loads(l) for l in open(res)]
    bad_p = os.path.join(d, "bad.ndjson")
    tlc_io(V, "ErrClassCheck.tla", cfg, {"IN": res, "OUT": bad_p})
    bad = [json.loads(l) for l in open(bad_p) if l.strip()]
    captured = [r for r in rows if r["note"].startswith("captured")]
    cov = {"states": nterms, "transitions": len(rows), "traces_validated_against_impl": len(rows),
           "samples": [r for r in rows if r["ws"]][:2] + captured[:2], "evaluations": len(rows),
           "distinct_nontrivial": len({(r["leaf"], tuple(r["ws"]), r["text"]) for r in rows if r["leaf"] != "nil"}),
           "rule": "TLC enumerates every term leaf x wrapper sequence (<= %s wrappers) of ErrClass.tla and checks the transcription of error.go against "
                   "Required on all of them; the harness builds the real Go value of each term, adds the error values captured from an embedded "
                   "nats-server through the library's adapter and seeded random message texts, calls the real IsPermanentError/IsTransientError, and "
                   "ErrClassCheck.tla judges every outcome (exclusive, total, required class); distinct by (leaf, wrappers, text)" % ("2" if tier == "quick" else "3"),
           "terms": nterms, "captured_from_real_nats": sorted({r["note"] for r in captured}), "random_texts": sum(1 for r in rows if r["leaf"] == "random"),
           "exhaustive": False}
    shutil.rmtree(d, ignore_errors=True)
    return finish(V, "C15", tier, seed, t0, bad, {"how": "python3 tools/verif.py check C15"}, cov,
                  ["an error value is abstracted to (what errors.Is/As reach, which classifier patterns its text contains); "
                   "terms with both a transient and a permanent marker in the chain are left open by the statement ('either')",
                   "embedded nats-server 2.12.2 / nats.go 1.47 provide the client's real error values"])


SPECIAL["C15"] = check_c15
SPECIAL_INFO["C15"] = {
    "engine": "tlc-enumeration+go", "level": "model_checking",
    "level_text": "ErrClass.tla models an error value as a term (leaf, wrappers) with the two attributes a classifier can observe; Required transcribes the "
                  "statement, Impl transcribes error.go. TLC enumerates all terms up to the wrapping bound, checks Impl against Required, and every term is "
                  "built as a real Go value (NATS leaves also captured from a real embedded server through the adapter) and classified by the real code; "
                  "TLC judges each real outcome.",
    "level_note": "trusted: TLC, the term-to-Go-value construction in the harness, the embedded nats-server as source of the client's error values; bounded wrapping depth",
    "technique": "TLA+ transcription of the component; TLC-enumerated cases executed on the real function and judged by TLA+ operators"}

# --------------------------------------------------------------------------------------------
def check_c17(tier, seed, V):
    t0 = time.time()
    th = V.tree_hash()
    binary = V.build_harness(th)
    d = os.path.join(V.WORK, "pure", "c17-%s-%s-%d" % (th, tier, seed))
    os.makedirs(d, exist_ok=True)
    cfg = "Retry.cfg" if tier == "quick" else "Retry_thorough.cfg"
    rs, bs = os.path.join(d, "retry.ndjson"), os.path.join(d, "breaker.ndjson")
    # the breaker under concurrent callers, as a state machine at the grain of its critical section (design level)
    outc, stc = tlc_io(V, "BreakerConc.tla", "BreakerConc.cfg", {})
    tlc_io(V, "RetryGen.tla", cfg, {"OUTR": rs, "OUTB": bs})
    nrs, nbs = sum(1 for _ in open(rs)), sum(1 for _ in open(bs))
    res = os.path.join(d, "results.ndjson")
    run_go_test(V, binary, "TestRetry", {"VERIF_IN_RETRY": rs, "VERIF_IN_BREAKER": bs, "VERIF_OUT": res, "VERIF_SEED": str(seed),
                                         "VERIF_BACKOFF_REPS": "2" if tier == "quick" else "20"})
    rows = [json.loads(l) for l in open(res)]
    bad_p = os.path.join(d, "bad.ndjson")
    tlc_io(V, "RetryCheck.tla", cfg, {"IN": res, "OUT": bad_p})
    bad = [json.loads(l) for l in open(bad_p) if l.strip()]
    # clause (b): acquisition rounds observed in simulated elections (judged by MonitorTrace.tla)
    rounds = 0
    for fam in ("core", "vacancy", "prio", "regress"):
        cd, meta = V.corpus(th, fam, tier, seed)
        for line in open(os.path.join(cd, "trace.ndjson")):
            if '"round_start"' in line:
                rounds += 1
        for line in open(os.path.join(cd, "viol.ndjson")):
            if line.strip():
                v = json.loads(line)
                if v["p"] == "C17":
                    bad.append({"row": 0, "clauses": [v["c"]], "r": {"scenario": v["scn"], "event": v["seq"], "family": fam}})
    kinds = {k: sum(1 for r in rows if r["kind"] == k) for k in ("retry", "breaker", "breaker_conc", "backoff")}
    cov = {"states": nrs + nbs, "transitions": len(rows), "traces_validated_against_impl": len(rows) + rounds,
           "samples": [next(r for r in rows if r["kind"] == k and (k != "retry" or r["waits"])) for k in ("retry", "breaker", "backoff")],
           "evaluations": len(rows) + rounds,
           "distinct_nontrivial": len({json.dumps(r, sort_keys=True) for r in rows if r["kind"] != "backoff" or r["n"] > 0}),
           "rule": "TLC enumerates every RetryWithBackoff scenario (MaxAttempts 0..4 x outcome prefixes x cancellation points x breaker) and every "
                   "CircuitBreaker call sequence on the cool-down lattice {0,C-1,C,C+1} of Retry.tla; each is executed on the real function under "
                   "testing/synctest and judged by RetryCheck.tla (invocation count, result, waits inside the back-off window; breaker invocation/result per call); "
                   "n concurrent failing callers of one breaker (real goroutines) must be invoked as often as in any sequential order of BreakerRun; "
                   "CalculateBackoff is sampled over configurations x attempt numbers (up to 2e9) and judged by the saturating window operator; acquisition rounds of "
                   "simulated elections are judged by MonitorTrace.tla (jitter 10-100 ms, back-off windows, at most four attempts)",
           "by_kind": kinds, "acquisition_rounds_observed": rounds, "exhaustive": False,
           "breaker_concurrency_model": {"module": "BreakerConc.tla", "callers": 6, "thresholds": "1..4", "distinct_states": stc.get("distinct"),
                                         "invariants": ["C17_NoInvocationWhileOpen", "C17_Linearizable", "C17_OneAtATime"], "liveness": "Terminates"}}
    shutil.rmtree(d, ignore_errors=True)
    return finish(V, "C17", tier, seed, t0, bad, {"how": "python3 tools/verif.py check C17"}, cov,
                  ["CalculateBackoff is judged for Initial >= 0, Max >= Initial, Multiplier >= 1, 0 <= Jitter <= 1 (rational multipliers, ms resolution)",
                   "float rounding is given 1 ms + 1 % in the window operator"])


SPECIAL["C17"] = check_c17
SPECIAL_INFO["C17"] = {
    "engine": "tlc-enumeration+go", "level": "model_checking",
    "level_text": "Retry.tla specifies the required behaviour of RetryWithBackoff and CircuitBreaker as recursive operators over scenarios; TLC enumerates all "
                  "scenarios within the bounds, the real functions execute each under virtual time, and TLC judges every observed behaviour (calls, results, waits). "
                  "CalculateBackoff is judged by a saturating integer window operator on sampled inputs; acquisition rounds are judged on election traces.",
    "level_note": "trusted: TLC, testing/synctest virtual time; bounds: outcome prefixes <= 4/5, breaker sequences <= 3/4 calls, sampled back-off configurations",
    "technique": "TLA+ specification of the sequential components; TLC-enumerated scenarios executed on the real functions and judged by TLA+ operators"}

# --------------------------------------------------------------------------------------------
def check_c14(tier, seed, V):
    t0 = time.time()
    th = V.tree_hash()
    binary = V.build_harness(th)
    d = os.path.join(V.WORK, "pure", "c14-%s-%s-%d" % (th, tier, seed))
    os.makedirs(d, exist_ok=True)
    # the contract itself, as a state machine (design level)
    out0, st0 = tlc_io(V, "KVStore.tla", "KVStore.cfg", {}, heap="-Xmx8g")
    depth = "3" if tier == "quick" else "4"
    seqs = os.path.join(d, "seqs.ndjson")
    tlc_io(V, "KVStoreGen.tla", "KVStoreGen.cfg", {"DEPTH": depth, "OUT": seqs})
    nseq = sum(1 for _ in open(seqs))
    res = os.path.join(d, "results.ndjson")
    run_go_test(V, binary, "TestKVContract", {"VERIF_IN": seqs, "VERIF_OUT": res, "VERIF_SEED": str(seed),
                                              "VERIF_MAX_EXPIRE_SEQS": "120" if tier == "quick" else "-1"}, timeout=3000)
    rows = [json.loads(l) for l in open(res)]
    bad_p = os.path.join(d, "bad.ndjson")
    tlc_io(V, "KVStoreCheck.tla", "KVStoreGen.cfg", {"IN": res, "OUT": bad_p})
    bad = [json.loads(l) for l in open(bad_p) if l.strip()]
    adapter = [r for r in rows if r.get("impl") == "adapter" and r["kind"] == "seq"]
    ref = [r for r in rows if r.get("impl") == "refstore"]
    cov = {"states": st0.get("distinct", 0) + nseq, "transitions": st0.get("generated", 0) + sum(len(r["ops"]) for r in rows if r["kind"] == "seq"),
           "traces_validated_against_impl": len(adapter) + len(ref),
           "samples": [r for r in adapter if len(r["ops"]) >= 3 and r["got_watchers"]][:2] + [r for r in rows if r["kind"] == "watchstable"],
           "evaluations": len(rows),
           "distinct_nontrivial": len({json.dumps([(o["op"], o["exp"], o["ok"]) for o in r["ops"]]) for r in adapter}),
           "rule": "KVStore.tla is model-checked as a state machine (Contract, WatchOrder); KVStoreGen.tla enumerates every operation sequence up to depth %s over "
                   "{create, update(latest|last-seq|0|stale|future), get, delete, wait-for-expiry, watch, write-other-key} with the expected result of every operation and the "
                   "expected event list of every watcher; each sequence runs through the library's adapter on a fresh bucket (TTL 1 s) of an embedded nats-server and on the "
                   "harness' reference store (virtual time); KVStoreCheck.tla judges every answer. Sequences that wait for real expiry are limited in quick. "
                   "Distinct by (operation, expected revision, expected outcome) sequence." % depth,
           "sequences": nseq, "adapter_sequences": len(adapter), "refstore_sequences": len(ref),
           "adapter_sequences_with_expiry": sum(1 for r in adapter if any(o["op"] == "expire" for o in r["ops"])), "exhaustive": False}
    shutil.rmtree(d, ignore_errors=True)
    return finish(V, "C14", tier, seed, t0, bad, {"how": "python3 tools/verif.py check C14"}, cov,
                  ["embedded nats-server 2.12.2 / nats.go 1.47 from the module cache; memory storage; expiry observed 0.6 s after MaxAge",
                   "values are short ASCII strings; 'arbitrary values' are not explored beyond that"])


SPECIAL["C14"] = check_c14
SPECIAL_INFO["C14"] = {
    "engine": "tlc-enumeration+go+nats", "level": "model_checking",
    "level_text": "KVStore.tla is the store contract (checked by TLC as a state machine); TLC generates every operation sequence up to the depth bound with expected "
                  "results and watcher event lists; the sequences are replayed through the library's NATS adapter against a real embedded JetStream server and on the "
                  "reference store used by all other checks, and TLC judges each answer against the contract.",
    "level_note": "trusted: TLC, the embedded nats-server as the real JetStream; real time (expiry waits) limits the number of expiry sequences in the quick tier",
    "technique": "TLA+ store contract; TLC-generated behaviours replayed on the real adapter + embedded NATS and on the reference store"}
